"""Seeded program generators (DESIGN section 3). A program is JSON for lv_driver."""

TIMEOUTS = [None, 2, 0.2, 0.05, 0.005]

BENIGN_RAISES = ["ValueError", "KeyError", "LvError", "SystemExit", "KeyboardInterrupt", "RuntimeError", "LvFalsy",
                 # classes an executor might be tempted to treat specially (retry, swallow, take for its own signals)
                 "MemoryError", "RecursionError", "StopIteration", "TimeoutError", "GeneratorExit", "EOFError", "BrokenPipeError"]


def t_ok(rng):
    return {"k": "ok", "x": rng.randint(0, 999)}


def t_sleep(rng, lo=0.005, hi=0.08):
    return {"k": "sleep", "d": round(rng.uniform(lo, hi), 3)}


def t_raise(rng):
    e = rng.choice(BENIGN_RAISES)
    args = [rng.randint(0, 99)] if e != "KeyError" else ["k%d" % rng.randint(0, 9)]
    if e == "SystemExit" and rng.random() < 0.3:
        args = []
    return {"k": "raise", "e": e, "args": args}


def t_bad_result_pickle(rng):
    return {"k": "bad_result_pickle", "e": rng.choice(["ZeroDivisionError", "ValueError", "SystemExit"])}


def t_bad_arg_pickle(rng):
    return {"k": "ok", "x": 1, "arg": ["bad_pickle", rng.choice(["ZeroDivisionError", "ValueError", "SystemExit", "struct.error", "IndexError", "BrokenPipeError", "ConnectionResetError", "EBADF", "closed_socket", "TimeoutError"])]}


def t_slow_pickle(rng, d=None):
    return {"k": "ok", "x": 2, "arg": ["slow_pickle", d if d is not None else round(rng.uniform(0.02, 0.15), 3)]}


def t_die(rng, delay=None):
    how, code = rng.choice(
        [("sig", "SIGKILL"), ("sig", "SIGSEGV"), ("sig", "SIGTERM"), ("exit", 3), ("exit", 0), ("cexit", 7), ("sig", "SIGABRT"), ("sig", 35), ("sig", 50),
         ("exit", 255), ("sig", "SIGUSR2" if False else "SIGHUP")]
    )
    s = {"k": "die", "how": how, "code": code}
    if delay:
        s["d"] = delay
    return s


def t_breaking(rng):
    r = rng.random()
    if r < 0.55:
        return t_die(rng, delay=rng.choice([0, 0, 0.02]))
    if r < 0.7:
        return {"k": "bad_result_unpickle"}
    if r < 0.85:
        return {"k": "ok", "x": 3, "arg": ["bad_unpickle", "ZeroDivisionError"]}
    return {"k": "die_in_gc", "how": "exit", "code": rng.choice([0, 4])}


def benign_task(rng, slow_ok=True):
    r = rng.random()
    if r < 0.45:
        return t_ok(rng)
    if r < 0.65:
        return t_sleep(rng)
    if r < 0.78:
        return t_raise(rng)
    if r < 0.86:
        return t_bad_result_pickle(rng)
    if r < 0.94:
        return t_bad_arg_pickle(rng)
    return t_slow_pickle(rng) if slow_ok else t_ok(rng)


def ex_kw(rng, timeouts=TIMEOUTS, max_w=4, init_p=0.0):
    kw = {"max_workers": rng.randint(1, max_w), "timeout": rng.choice(timeouts)}
    if rng.random() < init_p:
        kw["initializer"] = {"token": "tok%d" % rng.randint(0, 99)}
    return kw


def g_mix(rng, p_break=0.35, p_reusable=0.5, max_tasks=30, force_context=None):
    """C01: anything goes. 1-2 executors, 1-3 threads, all task kinds, cancel /
    resize / shutdown(wait=*) / del / get_reusable, every way of ending."""
    kind = "reusable" if rng.random() < p_reusable else "plain"
    kw = ex_kw(rng)
    if kind == "reusable" and kw["timeout"] is None:
        kw["timeout"] = rng.choice([10, 0.2, 0.05])
    if force_context is not None:
        # stratification: every start method the executor accepts appears in every run, with idle time-outs
        kind = "plain"
        kw["context"] = force_context
        kw["timeout"] = rng.choice([0.05, 0.2])
        p_break = 0.15
    elif kind == "plain" and rng.random() < 0.3:
        # other start methods the executor accepts (loky's own two, and the stdlib ones)
        kw["context"] = rng.choice(["loky_init_main", "spawn", "fork", "forkserver"])
    nthreads = rng.choice([1, 1, 2, 3])
    if kw.get("context") == "fork":
        nthreads = 1  # forking while other user threads run is outside what any library can promise
    will_break = rng.random() < p_break
    chain = rng.random() < 0.3  # done-callbacks that submit a follow-up task (from the manager, feeder or submitting thread)
    threads = []
    setup = [{"op": "new", "ex": "e", "kind": kind, "kw": kw}]
    total = rng.randint(5, max_tasks)
    per = max(2, total // nthreads)
    shutdown_done = False
    for ti in range(nthreads):
        ops = []
        for i in range(per):
            r = rng.random()
            if will_break and r < 0.06:
                ops.append({"op": "submit", "ex": "e", "task": t_breaking(rng)})
            elif r < 0.70:
                # (chained callbacks only on plain executors: on a reusable one they meet a concurrent resize, open finding F26)
                ops.append({"op": "submit", "ex": "e", "task": benign_task(rng), "raising_cb": rng.random() < 0.05, "chain_cb": kind == "plain" and chain and rng.random() < 0.5})
            elif r < 0.76:
                ops.append({"op": "cancel", "fut": "__recent__"})
            elif r < 0.84:
                ops.append({"op": "sleep", "d": rng.choice([0.001, 0.01, 0.06, 0.25]) if force_context is None else rng.choice([0.06, 0.25, 0.7])})
            elif r < 0.90 and kind == "reusable":
                kw2 = dict(kw, max_workers=rng.randint(1, 4))
                if rng.random() < 0.2:
                    kw2["timeout"] = rng.choice([10, 0.2, 0.05])
                if rng.random() < 0.15:
                    kw2["kill_workers"] = True
                ops.append({"op": "get_reusable", "ex": "e", "kw": kw2})
            elif r < 0.93:
                ops.append({"op": "wait", "futs": "all"})
            elif r < 0.96 and not shutdown_done and ti == 0 and i > per // 2:
                ops.append({"op": "shutdown", "ex": "e", "wait": rng.random() < 0.5})
                shutdown_done = True
            else:
                ops.append({"op": "submit", "ex": "e", "task": t_ok(rng)})
        threads.append(ops)
    threads[0] = setup + threads[0]
    # fix up cancels: refer to a future submitted earlier in the same thread
    for ti, ops in enumerate(threads):
        n = 0
        last_sub = None
        for op in ops:
            n += 1
            oid = "t%d.%d" % (ti, n)
            if op["op"] == "submit":
                last_sub = oid
            if op["op"] == "cancel":
                if last_sub is None:
                    op["op"] = "sleep"
                    op["d"] = 0.001
                    op.pop("fut")
                else:
                    op["fut"] = last_sub
    end = rng.choice(["wait_shutdown", "wait_only", "return", "shutdown_nowait", "del", "wait_shutdown"])
    tail = []
    if end == "wait_shutdown":
        tail = [{"op": "wait", "futs": "all"}, {"op": "shutdown", "ex": "e", "wait": True}]
    elif end == "wait_only":
        tail = [{"op": "wait", "futs": "all"}]
    elif end == "shutdown_nowait":
        tail = [{"op": "shutdown", "ex": "e", "wait": False}]
    elif end == "del":
        tail = [{"op": "del", "ex": "e"}]
    prog = {"threads": threads, "end": "return", "tail": tail}
    if nthreads > 1:
        # threads other than 0 must not start before the executor exists
        prog["barriers"] = {"start": nthreads}
        for ti, ops in enumerate(threads):
            if ti == 0:
                ops.insert(1, {"op": "barrier", "name": "start"})
            else:
                ops.insert(0, {"op": "barrier", "name": "start"})
        renumber_cancels(threads)
    meta = {"gen": "g_mix", "kind": kind, "kw": kw, "nthreads": nthreads, "will_break": will_break, "ending": end}
    return prog, meta


def renumber_cancels(threads):
    for ti, ops in enumerate(threads):
        n = 0
        last_sub = None
        for op in ops:
            n += 1
            oid = "t%d.%d" % (ti, n)
            if op["op"] == "submit":
                last_sub = oid
            if op["op"] == "cancel" and last_sub is not None:
                op["fut"] = last_sub
            elif op["op"] == "cancel":
                op["op"] = "sleep"
                op["d"] = 0.001
                op.pop("fut", None)


def g_mass_cancel(rng):
    """More queued futures than the call queue holds, most of them cancelled in one go (what Executor.map does on a
    time-out), live work queued behind the cancelled items and submitted afterwards."""
    kind = rng.choice(["plain", "reusable"])
    kw = {"max_workers": rng.choice([1, 1, 2]), "timeout": rng.choice([None, 10]) if kind == "plain" else 10}
    n = rng.randint(20, 40)
    ops = [{"op": "new", "ex": "e", "kind": kind, "kw": kw}]
    for i in range(n):
        ops.append({"op": "submit", "ex": "e", "task": t_sleep(rng, 0.03, 0.12) if i < 6 else t_ok(rng)})
    first = 2  # op index (1-based) of the first submit
    victims = [first + i for i in range(n) if i >= 4 and rng.random() < 0.8]
    if rng.random() < 0.5:
        victims.reverse()
    keep_tail = rng.random() < 0.7
    if keep_tail and victims:
        victims = [v for v in victims if v < first + n - 3]  # the last submissions stay live behind the cancelled ones
    for v in victims:
        ops.append({"op": "cancel", "fut": "t0.%d" % v})
    for _ in range(rng.randint(0, 3)):
        ops.append({"op": "submit", "ex": "e", "task": t_ok(rng)})
    ops += [{"op": "wait", "futs": "all"}, {"op": "quiesce", "ex": ["e"]}]
    ending = rng.choice(["shutdown", "exit"])
    if ending == "shutdown":
        ops.append({"op": "shutdown", "ex": "e", "wait": True})
    return {"threads": [ops], "end": "return"}, {"gen": "g_mass_cancel", "kind": kind, "kw": kw, "nthreads": 1, "ending": ending, "n_cancel": len(victims)}


# ---------------------------------------------------------------------------
def _number(threads):
    """Assign explicit ids so that generators can refer to futures."""
    for ti, ops in enumerate(threads):
        for i, op in enumerate(ops):
            op.setdefault("id", "t%d.%d" % (ti, i + 1))
    return threads


def g_crash(rng, force_churn=False, family=None):
    """C02: a pool that will suffer an abrupt worker death somewhere.
    family 'idle_sibling': 2-3 workers with a short idle time-out and tasks submitted one at a time, so that the
    siblings of the busy worker keep walking through their time-out branch while results keep the manager looping."""
    if family == "idle_sibling":
        kind = rng.choice(["plain", "reusable"])
        kw = {"max_workers": rng.randint(2, 3), "timeout": rng.choice([0.15, 0.25])}
        ops = [{"op": "new", "ex": "e", "kind": kind, "kw": kw}]
        for i in range(rng.randint(10, 16)):
            ops.append({"op": "submit", "ex": "e", "task": {"k": "sleep", "d": rng.choice([0.05, 0.1])}, "resubmit_on_break": rng.random() < 0.2})
            ops.append({"op": "wait", "futs": "all"})
        ops += [{"op": "submit", "ex": "e", "task": t_ok(rng), "after": True}, {"op": "wait", "futs": "all"}, {"op": "shutdown", "ex": "e", "wait": True}]
        return {"threads": _number([ops]), "end": "return"}, {"gen": "g_crash", "kind": kind, "kw": kw, "inline_death": False, "second_wave": False, "churn": False,
                                                               "sigchld_ignore": False, "family": family}
    kind = "reusable" if rng.random() < 0.4 else "plain"
    kw = {"max_workers": rng.randint(1, 5), "timeout": rng.choice([None, 0.2, 0.1, 10]) if kind == "plain" else rng.choice([0.2, 0.1, 10])}
    if rng.random() < 0.25:
        kw["initializer"] = {"token": "tok"}
    n = rng.randint(4, 20)
    ops = [{"op": "new", "ex": "e", "kind": kind, "kw": kw}]
    for i in range(n):
        r = rng.random()
        if r < 0.5:
            ops.append({"op": "submit", "ex": "e", "task": t_ok(rng), "resubmit_on_break": rng.random() < 0.3})
        elif r < 0.8:
            ops.append({"op": "submit", "ex": "e", "task": {"k": "sleep", "d": 0.05}, "resubmit_on_break": rng.random() < 0.3})
        elif r < 0.9:
            ops.append({"op": "submit", "ex": "e", "task": t_raise(rng)})
        else:
            ops.append({"op": "sleep", "d": rng.choice([0.001, 0.02, 0.1])})
    if force_churn:
        kw["max_workers"] = max(2, kw["max_workers"])
        kw["timeout"] = rng.choice([None, 10]) if kind == "plain" else 10
    churn = force_churn or (kw["max_workers"] >= 2 and rng.random() < 0.3)
    if churn:
        # a surviving worker whose process tree keeps changing (short-lived children) while the pool breaks
        ops.insert(rng.randint(1, 3), {"op": "submit", "ex": "e", "task": {"k": "spawn_loop", "d": 2.5}})
    inline = rng.random()
    if churn:
        inline = 0.0  # the pool must break while the churning worker is alive
    if inline < 0.35:
        # the death comes from a task / chaos kill instead of (or in addition to) the injector
        pos = rng.randint(1, len(ops)) if not churn else min(len(ops), 6)
        if churn:
            ops.insert(pos, {"op": "submit", "ex": "e", "task": t_die(rng, delay=0.6)})
        elif rng.random() < 0.6:
            ops.insert(pos, {"op": "submit", "ex": "e", "task": t_breaking(rng)})
        else:
            ops.insert(pos, {"op": "kill", "ex": "e", "which": rng.randint(0, 4), "sig": rng.choice(["SIGKILL", "SIGTERM", "SIGSEGV"])})
    second_wave = False
    if kw["timeout"] is not None and kw["timeout"] <= 0.2 and rng.random() < 0.7:
        # all workers idle out while the manager thread keeps running, then new submits spawn a second wave
        second_wave = True
        ops += [{"op": "wait", "futs": "all"}, {"op": "sleep", "d": round(4 * kw["timeout"], 3)}]
        for i in range(rng.choice([1, 1, 2, 4])):
            ops.append({"op": "submit", "ex": "e", "task": t_ok(rng) if rng.random() < 0.6 else {"k": "sleep", "d": 0.05}})
    ops += [
        {"op": "wait", "futs": "all"},
        {"op": "submit", "ex": "e", "task": t_ok(rng), "after": True},
        {"op": "wait", "futs": "all"},
        {"op": "shutdown", "ex": "e", "wait": True},
    ]
    prog = {"threads": _number([ops]), "end": "return"}
    return prog, {"gen": "g_crash", "kind": kind, "kw": kw, "inline_death": inline < 0.35, "second_wave": second_wave, "churn": churn, "sigchld_ignore": rng.random() < 0.15}


def g_route(rng, wrapped=None):
    """C03: routing, at-most-once, map; time-outs, respawns and resizes in the history.
    wrapped: some submissions go through ONE stateful callable wrapped with wrap_non_picklable_objects whose state the
    parent changes between submissions."""
    if wrapped is None:
        wrapped = rng.random() < 0.2
    wcount = [0]
    kind = "reusable" if rng.random() < 0.6 else "plain"
    kw = {"max_workers": rng.randint(1, 4), "timeout": rng.choice([None, 10, 0.05, 0.02, 0.005]) if kind == "plain" else rng.choice([10, 0.05, 0.02, 0.005])}
    nthreads = rng.choice([1, 2, 3, 4])
    threads = []
    for ti in range(nthreads):
        ops = []
        for i in range(rng.randint(6, 40)):
            r = rng.random()
            if r < 0.62:
                if rng.random() < 0.12:
                    ops.append({"op": "submit", "ex": "e", "task": t_raise(rng)})  # a raising body is executed at most once too
                    continue
                sop = {"op": "submit", "ex": "e", "task": t_ok(rng) if rng.random() < 0.8 else t_sleep(rng, 0.001, 0.02)}
                if wrapped and sop["task"]["k"] == "ok" and rng.random() < 0.5:
                    wcount[0] += 1
                    sop["wrapped"] = {"obj": "w%d" % ti, "set": wcount[0] if rng.random() < 0.7 else wcount[0] - 1, "keep_wrapper": ti % 2 == 0}
                ops.append(sop)
            elif r < 0.74:
                ops.append({"op": "cancel", "fut": "__recent__"})
            elif r < 0.84:
                n_it = rng.choice([1, 1, 2, 3])
                base = rng.randint(0, 10**6)
                iters = [[base + 1000 * j + x for x in range(rng.choice([0, 1, 2, 5, 9, 17]))] for j in range(n_it)]
                L = min(len(x) for x in iters) if iters else 0
                mop = {"op": "map", "ex": "e", "iters": iters, "chunksize": rng.choice([1, 2, 3, 7, max(1, L), L + 5])}
                v = rng.random()
                if v < 0.2 and iters and len(iters[0]) >= 2:
                    mop["shared_iter"] = rng.choice([2, 3])  # one iterator passed several times
                elif v < 0.35 and iters and len(iters[0]) >= 5:
                    mop["stop_mod"] = rng.choice([3, 4, 7])  # the mapped function raises StopIteration for some arguments
                ops.append(mop)
            elif r < 0.92:
                ops.append({"op": "sleep", "d": rng.choice([0.001, 0.03, 0.08])})
            elif kind == "reusable" and ti == 0:
                ops.append({"op": "get_reusable", "ex": "e", "kw": dict(kw, max_workers=rng.randint(1, 4))})
            else:
                ops.append({"op": "submit", "ex": "e", "task": t_ok(rng)})
        threads.append(ops)
    threads[0].insert(0, {"op": "new", "ex": "e", "kind": kind, "kw": kw})
    prog = {"threads": threads, "end": "return",
            "tail": [{"op": "wait", "futs": "all"}, {"op": "quiesce", "ex": ["e"]}, {"op": "shutdown", "ex": "e", "wait": True}]}
    if nthreads > 1:
        prog["barriers"] = {"start": nthreads}
        for ti, ops in enumerate(threads):
            ops.insert(1 if ti == 0 else 0, {"op": "barrier", "name": "start"})
    renumber_cancels(threads)
    return prog, {"gen": "g_route", "kind": kind, "kw": kw, "nthreads": nthreads, "wrapped": bool(wrapped)}


PICKLE_EXCS = ["ZeroDivisionError", "ValueError", "SystemExit", "struct.error", "IndexError", "BrokenPipeError", "ConnectionResetError", "EBADF", "closed_socket", "TimeoutError"]


SEND_LIMIT = 2000000


def g_contain(rng, force_pickle_exc=None, chain=None, too_large=False):
    """C04: task-level failures among good tasks, incl. a full call queue."""
    kind = "reusable" if rng.random() < 0.4 else "plain"
    mw = rng.randint(1, 4)
    kw = {"max_workers": mw, "timeout": rng.choice([None, 10]) if kind == "plain" else 10}
    n_good = rng.randint(5, 40)
    n_bad = rng.randint(1, 6)
    flood = rng.random() < 0.3
    tasks = [("good", t_ok(rng) if rng.random() < 0.7 else t_sleep(rng, 0.005, 0.03)) for _ in range(n_good)]
    bads = []
    for _ in range(n_bad):
        r = rng.random()
        if r < 0.12:
            bads.append({"k": "raise_unpicklable", "e": rng.choice(["LvError", "ValueError", "OSError"]), "args": [rng.randint(0, 99)], "attr": rng.choice(["lock", "lambda"])})
        elif r < 0.35:
            bads.append(t_raise(rng))
        elif r < 0.6:
            bads.append(t_bad_arg_pickle(rng))
        elif r < 0.8:
            bads.append(t_bad_result_pickle(rng))
        else:
            bads.append(t_slow_pickle(rng, 0.05))
    if rng.random() < 0.5:
        # an argument that fails to pickle only after a large picklable prefix, followed (somewhere) by tasks with shared references
        bads.append({"k": "ok", "x": 5, "arg": ["blob_then_bad", rng.choice([70000, 200000, 1000000]), rng.choice(["ZeroDivisionError", "ValueError"])]})
        for _ in range(rng.randint(1, 3)):
            tasks.insert(rng.randint(0, len(tasks)), ("good", {"k": "echo", "arg": ["shared", rng.choice([3, 50, 3000])]}))
    if flood:
        # more unsendable tasks in a row than the call queue has slots: a leaked slot would exhaust it
        slots = (2 * mw + 1) if kind == "plain" else 33
        bads += [t_bad_arg_pickle(rng) for _ in range(slots + 3)]
    if too_large:
        # tasks that pickle fine and fail in send_bytes (config send_limit): more of them than the call queue has slots
        slots = (2 * mw + 1) if kind == "plain" else 33
        n_tl = rng.choice([1, 2, slots, slots + 2]) if kind == "plain" else rng.choice([1, 3, 6])
        bads += [{"k": "ok", "x": 3, "arg": ["too_large", SEND_LIMIT + rng.randint(1000, 400000)]} for _ in range(n_tl)]
    if force_pickle_exc:
        for _ in range(rng.randint(1, 2)):
            bads.append({"k": "ok", "x": 1, "arg": ["bad_pickle", force_pickle_exc]})
    for b in bads:
        tasks.insert(rng.randint(0, len(tasks)), ("bad", b))
    if chain is None:
        chain = rng.random() < 0.3
    ops = [{"op": "new", "ex": "e", "kind": kind, "kw": kw}]
    for cls, t in tasks:
        # chain: the joblib pattern - the done-callback of a future (also of one that fails in the feeder thread) submits the next task
        ops.append({"op": "submit", "ex": "e", "task": t, "raising_cb": rng.random() < 0.08, "chain_cb": bool(chain) and (cls == "bad" or rng.random() < 0.15)})
        if rng.random() < 0.05:
            ops.append({"op": "sleep", "d": 0.01})
    ops += [
        {"op": "wait", "futs": "all"},
        {"op": "quiesce", "ex": ["e"]},
        {"op": "submit", "ex": "e", "task": {"k": "ok", "x": 7, "fresh": True}, "fresh": True},
        {"op": "wait", "futs": "all"},
        {"op": "quiesce", "ex": ["e"]},
    ]
    if rng.random() < 0.5:
        ops.append({"op": "shutdown", "ex": "e", "wait": True})
    prog = {"threads": [ops], "end": "return"}
    return prog, {"gen": "g_contain", "kind": kind, "kw": kw, "flood": flood, "n_bad": len(bads), "chain": bool(chain), "forced_pickle_exc": force_pickle_exc, "too_large": bool(too_large)}


def g_drain(rng):
    """C05: graceful shutdown requested at every program position, in every way."""
    kind = "reusable" if rng.random() < 0.35 else "plain"
    mw = rng.randint(1, 4)
    tmo = rng.choice([None, 0.2, 0.02]) if kind == "plain" else rng.choice([10, 0.2, 0.02])
    n = rng.randint(3, 30)
    slow = rng.random() < 0.25
    env = {}
    family = rng.choice(["any", "any", "timeout_race", "timeout_race", "few_slots"])
    if family == "timeout_race":
        # workers idle out while submitted work is still being pickled by the feeder thread
        tmo = rng.choice([0.02, 0.05])
        mw = rng.choice([1, 1, 2])
        slow = True
        n = rng.randint(3, 6)
    elif family == "few_slots":
        # a reusable executor's call queue has 2*cpu_count()+1 slots whatever max_workers is: more workers than slots
        kind = "reusable"
        env = {"LOKY_MAX_CPU_COUNT": "1"}
        mw = rng.randint(5, 8)
        tmo = rng.choice([0.2, 0.3, 10])
    kw = {"max_workers": mw, "timeout": tmo}
    ops = [{"op": "new", "ex": "e", "kind": kind, "kw": kw}]
    subs = []
    for i in range(n):
        r = rng.random()
        if slow and r < (0.7 if family == "timeout_race" else 0.3):
            t = t_slow_pickle(rng, rng.choice([0.03, 0.1]) if family != "timeout_race" else round(tmo * rng.choice([1.5, 3, 5]), 3))
        elif r < 0.55:
            t = t_ok(rng)
        elif r < 0.85:
            t = t_sleep(rng, 0.005, 0.06)
        else:
            t = t_raise(rng)
        subs.append({"op": "submit", "ex": "e", "task": t})
    position = rng.choice(["immediately", "mid", "after_done", "long_after"])
    if family == "few_slots" and tmo < 1:
        position = rng.choice(["after_done", "long_after", "at_timeout"])
    how = rng.choice(["shutdown_wait", "shutdown_nowait", "with", "del", "exit", "other_thread"])
    if family == "timeout_race" and rng.random() < 0.4:
        how = "exit"  # the manager thread has to respawn workers while the interpreter is already finalizing
        position = rng.choice(["immediately", "mid"])

    if kind == "reusable" and how == "del":
        how = "exit"  # the module-level singleton keeps a reusable executor alive: del alone requests nothing
    pre = list(subs)
    if position == "after_done":
        pre.append({"op": "wait", "futs": "all"})
    elif position == "long_after":
        pre += [{"op": "wait", "futs": "all"}, {"op": "sleep", "d": (3 * tmo if tmo and tmo < 1 else 0.05)}]
    elif position == "at_timeout":
        # the request arrives just as the workers reach their idle timeout
        pre += [{"op": "wait", "futs": "all"}, {"op": "sleep", "d": round(tmo * rng.choice([0.9, 1.0, 1.1]), 3)}]
    elif position == "mid":
        pre.insert(rng.randint(0, len(pre)), {"op": "sleep", "d": rng.choice([0.005, 0.03])})
    post_submit = {"op": "submit", "ex": "e", "task": {"k": "ok", "x": 0}, "post_shutdown": True}
    threads = [ops]
    tail = []
    barriers = {}
    if how == "shutdown_wait":
        ops += pre + [{"op": "shutdown", "ex": "e", "wait": True}, post_submit, {"op": "census", "after_shutdown": True, "grace": 5.0}]
    elif how == "shutdown_nowait":
        second = {"op": "shutdown", "ex": "e", "wait": True} if rng.random() < 0.5 else {"op": "join_mgr", "ex": "e"}
        ops += pre + [{"op": "shutdown", "ex": "e", "wait": False}, post_submit, second, {"op": "census", "after_shutdown": True, "grace": 5.0}]
    elif how == "with":
        ops += [{"op": "with", "ex": "e", "body": pre}, post_submit, {"op": "census", "after_shutdown": True, "grace": 5.0}]
    elif how == "del":
        ops += pre + [{"op": "del", "ex": "e"}, {"op": "join_mgr", "ex": "e"}, {"op": "census", "after_shutdown": True, "grace": 5.0}]
    elif how == "exit":
        ops += pre
    else:
        # the shutdown comes from a second thread while the first is still submitting
        ops += [{"op": "barrier", "name": "b"}] + pre
        threads.append([{"op": "barrier", "name": "b"}, {"op": "sleep", "d": rng.choice([0.0, 0.002, 0.02])}, {"op": "shutdown", "ex": "e", "wait": True}])
        barriers = {"b": 2}
        tail = [{"op": "wait", "futs": "all"}, {"op": "join_mgr", "ex": "e"}, {"op": "census", "after_shutdown": True, "grace": 5.0}]
    prog = {"threads": threads, "end": "return", "tail": tail}
    if barriers:
        prog["barriers"] = barriers
    return prog, {"gen": "g_drain", "kind": kind, "kw": kw, "position": position, "how": how, "slow_pickle": slow, "family": family, "env": env}


def g_many_at_exit(rng):
    """C05: the script ends with many executors alive (idle ones and some with work in flight), none of them shut down:
    the exit hook must get every manager thread to drain, stop its workers and end."""
    n_idle = rng.randint(5, 10)
    ops = []
    for i in range(n_idle):
        ops.append({"op": "new", "ex": "i%d" % i, "kind": "plain", "kw": {"max_workers": 1, "timeout": rng.choice([None, 10])}})
        ops.append({"op": "submit", "ex": "i%d" % i, "task": t_ok(rng)})
    ops.append({"op": "wait", "futs": "all"})
    for j in range(rng.randint(1, 2)):
        ops.append({"op": "new", "ex": "b%d" % j, "kind": "plain", "kw": {"max_workers": 1, "timeout": 10}})
        for _ in range(rng.randint(2, 4)):
            ops.append({"op": "submit", "ex": "b%d" % j, "task": t_sleep(rng, 0.1, 0.3)})
    return {"threads": [ops], "end": "return"}, {"gen": "g_many_at_exit", "kind": "plain", "kw": {"max_workers": 1, "timeout": 10}, "position": "exit", "how": "exit", "slow_pickle": False, "family": "many_at_exit", "env": {}}


def g_slow_exit(rng):
    """C05: workers that need 1.5-3 s to leave after their sentinel (atexit hook registered by the initializer)."""
    d = rng.choice([1.5, 2.5, 3.0])
    kind = rng.choice(["plain", "plain", "reusable"])
    kw = {"max_workers": rng.randint(1, 3), "timeout": 10, "initializer": {"token": "slow", "slow_exit": d}}
    ops = [{"op": "new", "ex": "e", "kind": kind, "kw": kw}]
    body = [{"op": "submit", "ex": "e", "task": t_ok(rng)} for _ in range(rng.randint(2, 6))]
    how = rng.choice(["shutdown_wait", "with", "shutdown_nowait"])
    if how == "shutdown_wait":
        ops += body + [{"op": "wait", "futs": "all"}, {"op": "shutdown", "ex": "e", "wait": True}]
    elif how == "with":
        ops += [{"op": "with", "ex": "e", "body": body}]
    else:
        ops += body + [{"op": "shutdown", "ex": "e", "wait": False}, {"op": "join_mgr", "ex": "e"}]
    ops.append({"op": "census", "after_shutdown": True, "grace": 5.0})
    return {"threads": [ops], "end": "return"}, {"gen": "g_slow_exit", "kind": kind, "kw": kw, "position": "after_done", "how": how, "slow_pickle": False, "family": "slow_exit", "env": {}}


def g_idle(rng, family=None):
    """C07: bursts separated by pauses around the idle timeout; resizes and shutdown in the same history.
    family 'nowait_pending': shutdown(wait=False) while slowly pickled work is still on its way and every idle timer fires
    (the manager thread must respawn workers for a pool that is already shutting down);
    family 'submit_into_expiring_pool': single submits into a started, idle pool whose workers are about to expire (the
    check delays every statement of submit() in turn)."""
    if family == "nowait_pending":
        kind = rng.choice(["plain", "plain", "reusable"])
        tmo = rng.choice([0.05, 0.1, 0.2])
        kw = {"max_workers": rng.randint(1, 3), "timeout": tmo}
        ops = [{"op": "new", "ex": "e", "kind": kind, "kw": kw}, {"op": "submit", "ex": "e", "task": t_ok(rng)}, {"op": "wait", "futs": "all"}]
        for _ in range(rng.randint(3, 6)):
            ops.append({"op": "submit", "ex": "e", "task": t_slow_pickle(rng, round(rng.choice([3, 6]) * tmo + 0.1, 3))})
        ops += [{"op": "shutdown", "ex": "e", "wait": False}, {"op": "wait", "futs": "all"}, {"op": "join_mgr", "ex": "e"}]
        return {"threads": [ops], "end": "return"}, {"gen": "g_idle", "kind": kind, "kw": kw, "ending": "nowait", "family": family}
    if family == "submit_into_expiring_pool":
        kind = rng.choice(["plain", "reusable"])
        tmo = rng.choice([0.05, 0.1])
        kw = {"max_workers": rng.randint(1, 3), "timeout": tmo}
        ops = [{"op": "new", "ex": "e", "kind": kind, "kw": kw}, {"op": "submit", "ex": "e", "task": t_ok(rng)}, {"op": "wait", "futs": "all"},
               {"op": "sleep", "d": round(tmo * rng.choice([0.3, 0.7]), 3)},
               {"op": "submit", "ex": "e", "task": t_ok(rng)}, {"op": "wait", "futs": "all"}, {"op": "quiesce", "ex": ["e"]}, {"op": "shutdown", "ex": "e", "wait": True}]
        return {"threads": [ops], "end": "return"}, {"gen": "g_idle", "kind": kind, "kw": kw, "ending": "shutdown", "family": family}
    kind = "reusable" if rng.random() < 0.6 else "plain"
    tmo = rng.choice([0.5, 0.1, 0.02, 0.005, 0.001])
    mw = rng.randint(1, 6)
    kw = {"max_workers": mw, "timeout": tmo}
    if rng.random() < 0.15:
        kw["initializer"] = {"token": "leak", "leak0": True}
    ops = [{"op": "new", "ex": "e", "kind": kind, "kw": kw}]
    for b in range(rng.randint(2, 5)):
        for i in range(rng.randint(1, 3 * mw)):
            r = rng.random()
            if r < 0.6:
                ops.append({"op": "submit", "ex": "e", "task": t_ok(rng)})
            elif r < 0.85:
                ops.append({"op": "submit", "ex": "e", "task": t_sleep(rng, 0.002, min(0.05, 3 * tmo + 0.004))})
            else:
                ops.append({"op": "submit", "ex": "e", "task": t_slow_pickle(rng, min(0.1, 2 * tmo + 0.01))})
        if rng.random() < 0.6:
            ops.append({"op": "wait", "futs": "all"})
        ops.append({"op": "sleep", "d": round(min(1.2, tmo * rng.choice([0.5, 1.0, 1.5, 3.0])), 4)})
        if kind == "reusable" and rng.random() < 0.3:
            mw = rng.randint(1, 6)  # the size in force from here on
            ops.append({"op": "get_reusable", "ex": "e", "kw": dict(kw, max_workers=mw)})
    if mw >= 2 and rng.random() < 0.5:
        # a task that needs a sibling submitted after the idle workers have left: only completes if the pool is topped up again
        ops += [{"op": "wait", "futs": "all"},
                {"op": "submit", "ex": "e", "task": {"k": "rendezvous", "n": 2, "grp": "dep", "dir": "$RES", "patience": 15.0, "hold": 0.05}},
                {"op": "sleep", "d": round(min(1.5, 4 * tmo + 0.05), 3)},
                {"op": "submit", "ex": "e", "task": {"k": "rendezvous", "n": 2, "grp": "dep", "dir": "$RES", "patience": 15.0, "hold": 0.05}}]
    ops += [{"op": "wait", "futs": "all"}, {"op": "quiesce", "ex": ["e"]}]
    ending = rng.choice(["shutdown", "exit", "shutdown", "nowait", "exit_pending"])
    if ending == "shutdown":
        ops.append({"op": "shutdown", "ex": "e", "wait": True})
    elif ending == "nowait":
        ops += [{"op": "shutdown", "ex": "e", "wait": False}, {"op": "join_mgr", "ex": "e"}]
    elif ending == "exit_pending":
        # the script ends while slow-to-pickle work is still on its way: every timer fires during interpreter exit
        for _ in range(rng.randint(2, 4)):
            ops.append({"op": "submit", "ex": "e", "task": t_slow_pickle(rng, round(min(0.5, 3 * tmo + 0.05), 3))})
    prog = {"threads": [ops], "end": "return"}
    return prog, {"gen": "g_idle", "kind": kind, "kw": kw, "ending": ending}


# ---------------------------------------------------------------------------
def g_kill(rng, family=None):
    """C06: forced shutdown arriving in every pool state, with nested pools and subprocesses.
    family 'branching': a worker with two nested workers that each own a subprocess (kill_process_tree must
    walk a branching tree); family 'already_shutting_down': a graceful non-waiting shutdown precedes the forced one."""
    kind = "reusable" if rng.random() < 0.5 else "plain"
    if family == "already_shutting_down_factory":
        kind = "reusable"
    mw = rng.randint(1, 3)
    kw = {"max_workers": mw, "timeout": rng.choice([None, 10]) if kind == "plain" else 10}
    ops = [{"op": "new", "ex": "e", "kind": kind, "kw": kw}]
    n_pre = rng.randint(0, 4)
    for _ in range(n_pre):
        ops.append({"op": "submit", "ex": "e", "task": t_ok(rng)})
    if n_pre and rng.random() < 0.5:
        ops.append({"op": "wait", "futs": "all"})
    depth = rng.choice([0, 0, 1, 1, 2])
    n_long = rng.randint(1, mw + 3)
    if family == "branching":
        depth = max(depth, 1)
        ops.append({"op": "submit", "ex": "e", "task": {"k": "nested", "kind": "plain", "kw": {"max_workers": 2, "timeout": 10},
                                                         "sub": [{"k": "spawn_subprocess", "hang": 120}, {"k": "spawn_subprocess", "hang": 120}], "then": "hang"}})
    if family == "graceful_after_forced":
        # a forced shutdown from one thread, a graceful non-waiting one from another a few milliseconds later: the request to
        # kill must stand
        kw["max_workers"] = mw = rng.randint(1, 3)
        ops = [{"op": "new", "ex": "e", "kind": kind, "kw": kw}]
        for _ in range(mw + rng.randint(0, 2)):
            ops.append({"op": "submit", "ex": "e", "task": {"k": "endless"}})
        ops += [{"op": "sleep", "d": 0.5}, {"op": "barrier", "name": "b"}, {"op": "sleep", "d": rng.choice([0.02, 0.04])}, {"op": "shutdown", "ex": "e", "wait": False}]
        t1 = [{"op": "barrier", "name": "b"}, {"op": "shutdown", "ex": "e", "kill_workers": True, "forced": True}]
        prog = {"threads": [ops, t1], "end": "return", "barriers": {"b": 2}, "tail": [{"op": "ns", "grace": 3.0, "after_forced": True}, {"op": "wait", "futs": "all"}, {"op": "census"}]}
        return prog, {"gen": "g_kill", "kind": kind, "kw": kw, "depth": 0, "via": "shutdown", "family": family}
    if family == "idle_with_descendants":
        # finished tasks left long-lived subprocesses behind (directly, or below a nested pool kept alive in the worker); every
        # future is done when the forced shutdown arrives: the trees must be killed all the same
        kw["max_workers"] = mw = rng.randint(1, 2)
        ops = [{"op": "new", "ex": "e", "kind": kind, "kw": kw}]
        for _ in range(rng.randint(1, 3)):
            ops.append({"op": "submit", "ex": "e", "task": {"k": "spawn_subprocess", "d": 300}})
        ops += [{"op": "wait", "futs": "all"}, {"op": "sleep", "d": rng.choice([0.05, 0.3])}]
        via = rng.choice(["shutdown", "factory"]) if kind == "reusable" else "shutdown"
        kill_op = ({"op": "shutdown", "ex": "e", "kill_workers": True, "forced": True} if via == "shutdown"
                   else {"op": "get_reusable", "ex": "e", "kw": {"max_workers": mw, "timeout": 5, "kill_workers": True}, "forced": True})
        ops.append(kill_op)
        prog = {"threads": [ops], "end": "return", "tail": [{"op": "ns", "grace": 3.0, "after_forced": True}, {"op": "wait", "futs": "all"}, {"op": "census"}]}
        return prog, {"gen": "g_kill", "kind": kind, "kw": kw, "depth": 0, "via": via, "family": family}
    if family == "churn":
        # every worker owns a long-lived helper and a stream of short-lived subprocesses that vanish during the kill sweep
        mw = kw["max_workers"] = rng.randint(2, 3)
        n_long = 0
        for _ in range(mw):
            ops.append({"op": "submit", "ex": "e", "task": {"k": "churn_subprocess", "n": rng.choice([8, 12, 16])}})
    for i in range(n_long):
        r = rng.random()
        if depth >= 1 and r < 0.5:
            sub = [{"k": "endless"}]
            if depth >= 2 and rng.random() < 0.6:
                sub = [{"k": "nested", "kind": "reusable", "kw": {"max_workers": 1, "timeout": 10}, "sub": [{"k": "endless"}, {"k": "spawn_subprocess", "hang": 120}], "then": "hang"}]
            elif rng.random() < 0.5:
                sub.append({"k": "spawn_subprocess", "hang": 120})
            ops.append({"op": "submit", "ex": "e", "task": {"k": "nested", "kind": rng.choice(["reusable", "plain"]), "kw": {"max_workers": rng.randint(1, 2), "timeout": 10}, "sub": sub, "then": "hang"}})
        elif r < 0.7:
            ops.append({"op": "submit", "ex": "e", "task": {"k": "spawn_subprocess", "hang": 120}})
        else:
            ops.append({"op": "submit", "ex": "e", "task": {"k": "endless"}})
    for _ in range(rng.randint(0, 2 * mw + 3)):
        ops.append({"op": "submit", "ex": "e", "task": rng.choice([t_ok(rng), {"k": "endless"}])})
    if rng.random() < 0.4:
        ops.append({"op": "cancel", "fut": "__recent__"})
    ops.append({"op": "sleep", "d": rng.choice([0.0, 0.02, 0.3, 0.8, 1.5]) if family not in ("branching", "churn") else (rng.choice([4.0, 5.0]) if family == "branching" else rng.choice([1.5, 2.5]))})
    if family in ("already_shutting_down", "already_shutting_down_factory") or (family is None and rng.random() < 0.15):
        ops.append({"op": "shutdown", "ex": "e", "wait": False})
        ops.append({"op": "sleep", "d": rng.choice([0.0, 0.05, 0.3])})
    via = rng.choice(["shutdown", "factory"]) if kind == "reusable" else "shutdown"
    if family == "already_shutting_down_factory":
        via = "factory"
    threads = [ops]
    barriers = {}
    kill_op = ({"op": "shutdown", "ex": "e", "kill_workers": True, "forced": True} if via == "shutdown"
               else {"op": "get_reusable", "ex": "e", "kw": {"max_workers": mw, "timeout": 5, "kill_workers": True}, "forced": True})
    if rng.random() < 0.25:
        # from a second thread while the first is still submitting
        ops.insert(1, {"op": "barrier", "name": "b"})
        if kill_op["op"] == "get_reusable":
            # the other thread keeps submitting on the executor it holds (the old one), not on the replacement
            kill_op = dict(kill_op, ex="e2", prev_ex="e")
        threads.append([{"op": "barrier", "name": "b"}, {"op": "sleep", "d": rng.choice([0.3, 0.8])}, kill_op])
        barriers = {"b": 2}
        tail = [{"op": "ns", "grace": 3.0, "after_forced": True}, {"op": "wait", "futs": "all"}, {"op": "census"}]
    else:
        ops.append(kill_op)
        tail = [{"op": "ns", "grace": 3.0, "after_forced": True}, {"op": "wait", "futs": "all"}, {"op": "census"}]
    renumber_cancels(threads)
    prog = {"threads": threads, "end": "return", "tail": tail}
    if barriers:
        prog["barriers"] = barriers
    return prog, {"gen": "g_kill", "kind": kind, "kw": kw, "depth": depth, "via": via, "family": family}


def g_par(rng, family=None):
    """C08: histories of submits, time-outs, respawns and resizes with saturating rendezvous batches.
    family 'grow_while_respawning': a reusable executor whose workers idle out between slowly pickled jobs (the manager
    thread keeps respawning them) is grown by get_reusable_executor while those jobs are in flight."""
    if family == "grow_while_respawning":
        mw = rng.randint(3, 7)
        tmo = rng.choice([0.02, 0.05])
        kw = {"max_workers": mw, "timeout": tmo}
        ops = [{"op": "new", "ex": "e", "kind": "reusable", "kw": kw}]
        grp = 0
        cur = mw
        for rnd in range(rng.randint(1, 3)):
            for _ in range(rng.randint(2 * cur, 3 * cur)):
                ops.append({"op": "submit", "ex": "e", "task": t_slow_pickle(rng, rng.choice([0.04, 0.08, 0.12]))})
            if rng.random() < 0.5:
                ops.append({"op": "sleep", "d": rng.choice([0.05, 0.2, 0.4])})
            cur = min(8, cur + rng.randint(1, 2)) if cur < 8 else 8
            ops.append({"op": "get_reusable", "ex": "e", "kw": dict(kw, max_workers=cur)})
            ops.append({"op": "wait", "futs": "all"})
            grp += 1
            for i in range(cur):
                ops.append({"op": "submit", "ex": "e", "task": {"k": "rendezvous", "n": cur, "grp": "g%d" % grp, "dir": "$RES", "patience": 20.0, "hold": 0.05}})
            ops.append({"op": "wait", "futs": "all"})
        ops += [{"op": "quiesce", "ex": ["e"]}, {"op": "shutdown", "ex": "e", "wait": True}]
        return {"threads": [ops], "end": "return"}, {"gen": "g_par", "kind": "reusable", "kw": kw, "family": family}
    kind = "reusable" if rng.random() < 0.65 else "plain"
    mw = rng.randint(1, 8)
    tmo = rng.choice([None, 10, 0.05, 0.02]) if kind == "plain" else rng.choice([10, 0.05, 0.02])
    grow = kind == "reusable" and rng.random() < 0.35
    if grow:
        mw = rng.choice([1, 1, 2])  # created small, grown by more than a factor of two later
    kw = {"max_workers": mw, "timeout": tmo}
    ops = [{"op": "new", "ex": "e", "kind": kind, "kw": kw}]
    grp = 0
    cur = mw
    for step in range(rng.randint(2, 5)):
        r = rng.random()
        if r < 0.35:
            for _ in range(rng.randint(1, 2 * cur + 2)):
                ops.append({"op": "submit", "ex": "e", "task": t_sleep(rng, 0.01, 0.06)})
        elif r < 0.55:
            ops.append({"op": "sleep", "d": round(min(0.5, (tmo or 0.02) * rng.choice([1.5, 3])), 3)})
        elif (r < 0.8 or (grow and step == 0)) and kind == "reusable":
            cur = rng.randint(1, 8) if not (grow and step == 0) else 8
            ops.append({"op": "get_reusable", "ex": "e", "kw": dict(kw, max_workers=cur)})
        else:
            for _ in range(rng.randint(1, cur)):
                ops.append({"op": "submit", "ex": "e", "task": t_ok(rng)})
        # saturating batch on a quiet executor
        ops.append({"op": "wait", "futs": "all"})
        if tmo is not None and tmo < 1 and cur >= 2 and rng.random() < 0.5:
            # partial expiry: one worker stays busy while its idle siblings time out; the next submits must top the pool up again
            ops.append({"op": "submit", "ex": "e", "task": {"k": "sleep", "d": round(4 * tmo + 0.3, 3)}})
            ops.append({"op": "sleep", "d": round(3 * tmo + 0.1, 3)})
        grp += 1
        for i in range(cur):
            ops.append({"op": "submit", "ex": "e", "task": {"k": "rendezvous", "n": cur, "grp": "g%d" % grp, "dir": "$RES", "patience": 20.0, "hold": 0.05}})
        for _ in range(rng.randint(0, 3)):
            ops.append({"op": "submit", "ex": "e", "task": t_sleep(rng, 0.01, 0.03)})
        ops.append({"op": "wait", "futs": "all"})
    ops += [{"op": "quiesce", "ex": ["e"]}, {"op": "shutdown", "ex": "e", "wait": True}]
    return {"threads": [ops], "end": "return"}, {"gen": "g_par", "kind": kind, "kw": kw}


def g_factory(rng):
    """C09: sequences of get_reusable_executor calls interleaved with crashes, shutdowns, time-outs."""
    n = rng.randint(3, 12)
    ops = []
    cur = None
    for i in range(n):
        kw = {"max_workers": rng.randint(1, 4), "timeout": rng.choice([10, 10, 5, 0.1])}
        r = rng.random()
        if r < 0.35:
            kw["reuse"] = rng.choice([True, False, "auto"])
        if rng.random() < 0.15:
            kw["kill_workers"] = True
        if rng.random() < 0.2:
            kw["initializer"] = {"token": "tok%d" % rng.randint(0, 3)}
        if rng.random() < 0.15:
            kw["env"] = {"LV_ENV_MARK": "m%d" % rng.randint(0, 2)}
        if rng.random() < 0.12:
            kw["context"] = rng.choice(["loky", "loky_init_main", "spawn"])
        if cur is not None and rng.random() < 0.35:
            # same arguments again (reuse expected) possibly with another size
            kw = dict(cur, max_workers=rng.choice([cur["max_workers"], rng.randint(1, 4)]))
            kw.pop("kill_workers", None)
        ops.append({"op": "get_reusable", "ex": "e", "kw": kw, "factory": True})
        cur = {k: v for k, v in kw.items() if k not in ("reuse", "kill_workers")}
        ops.append({"op": "submit", "ex": "e", "task": {"k": "probe", "what": ["init", "env", "pid"]}})
        for _ in range(rng.randint(0, 3)):
            ops.append({"op": "submit", "ex": "e", "task": t_ok(rng)})
        ops.append({"op": "wait", "futs": "all"})
        r = rng.random()
        if r < 0.2:
            ops += [{"op": "submit", "ex": "e", "task": t_die(rng)}, {"op": "wait", "futs": "all"}, {"op": "sleep", "d": 0.05}]
        elif r < 0.35:
            w = rng.random() < 0.5
            if not w:
                ops.append({"op": "submit", "ex": "e", "task": t_sleep(rng, 0.1, 0.3)})
            ops.append({"op": "shutdown", "ex": "e", "wait": w})
        elif r < 0.5:
            ops.append({"op": "sleep", "d": rng.choice([0.05, 0.3])})
    ops += [{"op": "wait", "futs": "all"}]
    return {"threads": [ops], "end": "return"}, {"gen": "g_factory", "threads": 1}


def g_factory_from_callback(rng, racing=None):
    """C09: the factory is first called, with changed arguments, from a done-callback running in the manager thread of the
    instance in use (it cannot complete there), then from the main thread: the half-stopped previous instance must be
    completely shut down before the fresh one is handed out."""
    kw = {"max_workers": rng.randint(2, 3), "timeout": rng.choice([10, 5])}
    kw2 = dict(kw, timeout=kw["timeout"] + 7)
    kw3 = dict(kw, timeout=kw["timeout"] + 11, max_workers=rng.randint(1, 3))
    ops = [{"op": "get_reusable", "ex": "e", "kw": kw, "factory": True}, {"op": "submit", "ex": "e", "task": t_ok(rng)}, {"op": "wait", "futs": "all"}]
    racing = rng.random() < 0.3 if racing is None else racing
    if racing:
        # the main thread's replacement call is issued while the job whose callback will call the factory still runs
        ops.append({"op": "submit", "ex": "e", "task": t_sleep(rng, 0.4, 0.6), "factory_cb": kw2})
        ops.append({"op": "sleep", "d": 0.1})
    else:
        # a long job keeps the instance busy: after the callback's failed attempt the instance is half-stopped (shutdown requested,
        # work in flight); the main thread's call must wait for it to drain and for its workers to be joined
        ops.append({"op": "submit", "ex": "e", "task": {"k": "sleep", "d": round(rng.uniform(1.5, 2.5), 2)}})
        ops.append({"op": "submit", "ex": "e", "task": t_sleep(rng, 0.05, 0.1), "factory_cb": kw2})
        ops += [{"op": "sleep", "d": 0.7}]
    ops += [{"op": "get_reusable", "ex": "e", "kw": kw3, "factory": True},
            {"op": "submit", "ex": "e", "task": {"k": "probe", "what": ["init", "env", "pid"]}}, {"op": "wait", "futs": "all"}]
    return {"threads": [ops], "end": "return"}, {"gen": "g_factory_from_callback", "threads": 1, "racing": racing}


def g_factory_break_race(rng):
    """C09: a caller that has just seen a future fail with the pool's error asks the factory at once, while the
    manager thread is still busy failing the other futures (a slow done-callback keeps it there)."""
    mw = rng.randint(1, 3)
    kw = {"max_workers": mw, "timeout": 10}
    t0 = [{"op": "get_reusable", "ex": "e", "kw": kw}]
    n = rng.randint(3, 6)
    for i in range(n):
        op = {"op": "submit", "ex": "e", "task": {"k": "sleep", "d": 0.3}, "id": "t0.s%d" % i}
        if i == 0:
            op["slow_cb"] = 0.6  # failed last (pending items are failed in LIFO order) or first: either way it holds the manager
        if i == 1:
            op["slow_cb"] = 0.6
        t0.append(op)
    t0 += [{"op": "barrier", "name": "go"}, {"op": "submit", "ex": "e", "task": t_die(rng), "id": "t0.die"}, {"op": "wait", "futs": "all"}]
    watch = "t0.s%d" % (n - 1)
    t1 = [{"op": "barrier", "name": "go"}, {"op": "result", "fut": watch}, {"op": "get_reusable", "ex": "e1", "prev_ex": "e", "kw": kw, "after_failure_of": watch},
          {"op": "submit", "ex": "e1", "task": t_ok(rng)}, {"op": "wait", "futs": "all"}]
    return {"threads": [t0, t1], "barriers": {"go": 2}, "end": "return"}, {"gen": "g_factory_break_race", "threads": 2, "kw": kw}


def g_factory_mt(rng):
    """C09 multi-thread: racing callers varying only max_workers."""
    nt = rng.randint(2, 6)
    tmo = rng.choice([10, 0.2])
    threads = []
    for ti in range(nt):
        ops = [{"op": "barrier", "name": "s"}]
        for i in range(rng.randint(2, 6)):
            ops.append({"op": "get_reusable", "ex": "e%d" % ti, "kw": {"max_workers": rng.randint(1, 4), "timeout": tmo}})
            for _ in range(rng.randint(1, 3)):
                ops.append({"op": "submit", "ex": "e%d" % ti, "task": t_ok(rng) if rng.random() < 0.7 else t_sleep(rng, 0.005, 0.03)})
            if rng.random() < 0.5:
                ops.append({"op": "wait", "futs": "all"})
        threads.append(ops)
    return {"threads": threads, "barriers": {"s": nt}, "end": "return", "tail": [{"op": "wait", "futs": "all"}]}, {"gen": "g_factory_mt", "threads": nt, "kw": {"timeout": tmo}}


def g_resize(rng, family=None, single=None):
    """C10: (old,new) pairs with in-flight work and idle time-outs.
    family 'callback_submits': the jobs in flight during the resize have done-callbacks that submit a follow-up task to the
    same executor (the joblib dispatch pattern) from the manager thread."""
    if family == "callback_submits":
        n0 = rng.randint(2, 4)
        n1 = rng.choice([x for x in range(1, 6) if x != n0])
        kw = {"max_workers": n0, "timeout": 100}
        ops = [{"op": "new", "ex": "e", "kind": "reusable", "kw": kw}, {"op": "submit", "ex": "e", "task": t_ok(rng)}, {"op": "wait", "futs": "all"}]
        single = (rng.random() < 0.5) if single is None else single  # exactly one job in flight: its work item is accounted for before its callbacks run
        for _ in range(1 if single else rng.randint(n0, 2 * n0)):
            ops.append({"op": "submit", "ex": "e", "task": t_sleep(rng, 0.2, 0.4), "chain_cb": True})
        ops += [{"op": "sleep", "d": rng.choice([0.0, 0.05])},
                {"op": "get_reusable", "ex": "e", "kw": dict(kw, max_workers=n1), "resize": [n0, n1]},
                {"op": "wait", "futs": "all"}, {"op": "submit", "ex": "e", "task": t_ok(rng)}, {"op": "wait", "futs": "all"}, {"op": "quiesce", "ex": ["e"]}]
        return {"threads": [ops], "end": "return"}, {"gen": "g_resize", "kw": kw, "old": n0, "family": family, "direction": "grow" if n1 > n0 else "shrink", "single": single}
    tmo = rng.choice([None, None, 0.3, 0.05, 0.01])
    old = rng.randint(1, 6)
    kw = {"max_workers": old, "timeout": tmo if tmo is not None else 100}
    ops = [{"op": "new", "ex": "e", "kind": "reusable", "kw": kw}]
    ops += [{"op": "submit", "ex": "e", "task": t_ok(rng)}, {"op": "wait", "futs": "all"}]
    cur = old
    for step in range(rng.randint(1, 4)):
        new = rng.randint(1, 6)
        inflight = rng.choice([0, 0, 1, 2, 3]) * cur
        for _ in range(inflight):
            ops.append({"op": "submit", "ex": "e", "task": t_sleep(rng, 0.01, 0.08) if rng.random() < 0.7 else t_ok(rng)})
        if rng.random() < 0.3:
            ops.append({"op": "sleep", "d": rng.choice([0.0, 0.01, 0.06])})
        ops.append({"op": "get_reusable", "ex": "e", "kw": dict(kw, max_workers=new), "resize": [cur, new]})
        cur = new
        if rng.random() < 0.6:
            ops.append({"op": "submit", "ex": "e", "task": t_ok(rng)})
            ops.append({"op": "wait", "futs": "all"})
    family = "plain"
    r0 = rng.random()
    if r0 < 0.12:
        # a resize interrupted while it waits for running jobs (its own UserWarning turned into an error), then retried
        family = "interrupted_resize"
        n0 = rng.randint(2, 5)
        n1 = rng.choice([x for x in range(1, 7) if x != n0])
        kw = {"max_workers": n0, "timeout": 100}
        ops = [{"op": "new", "ex": "e", "kind": "reusable", "kw": kw}, {"op": "submit", "ex": "e", "task": t_ok(rng)}, {"op": "wait", "futs": "all"}]
        for _ in range(n0):
            ops.append({"op": "submit", "ex": "e", "task": t_sleep(rng, 0.2, 0.4)})
        ops += [{"op": "get_reusable", "ex": "e", "kw": dict(kw, max_workers=n1), "warn_as_error": True},
                {"op": "wait", "futs": "all"},
                {"op": "get_reusable", "ex": "e", "kw": dict(kw, max_workers=n1), "resize": [n0, n1], "retry": True},
                {"op": "submit", "ex": "e", "task": t_ok(rng)}, {"op": "wait", "futs": "all"}]
    elif r0 < 0.27:
        # a worker added by a growing resize dies before anything else happens, then the pool is shrunk by one
        family = "new_worker_dies"
        n0 = rng.randint(1, 3)
        kw = {"max_workers": n0, "timeout": 100}
        ops = [{"op": "new", "ex": "e", "kind": "reusable", "kw": kw}, {"op": "submit", "ex": "e", "task": t_ok(rng)}, {"op": "wait", "futs": "all"},
               {"op": "get_reusable", "ex": "e", "kw": dict(kw, max_workers=n0 + 1), "resize": [n0, n0 + 1]},
               {"op": "kill", "ex": "e", "which": -1, "sig": rng.choice(["SIGKILL", "SIGTERM"])}, {"op": "sleep", "d": 0.3},
               {"op": "get_reusable", "ex": "e", "kw": dict(kw, max_workers=n0), "resize": [n0 + 1, n0]},
               {"op": "submit", "ex": "e", "task": t_ok(rng)}, {"op": "wait", "futs": "all"}]
    elif rng.random() < 0.3:
        # every worker idles out first, then the pool is shrunk; the kept workers must stay (nobody asked them to leave)
        family = "expired_then_shrink"
        kw = {"max_workers": rng.randint(3, 6), "timeout": 2.5}
        new = rng.randint(1, kw["max_workers"] - 1)  # (the pause below is long enough for every worker to be gone well before the call)
        ops = [{"op": "new", "ex": "e", "kind": "reusable", "kw": kw}]
        for _ in range(kw["max_workers"]):
            ops.append({"op": "submit", "ex": "e", "task": t_sleep(rng, 0.02, 0.05)})
        ops += [{"op": "wait", "futs": "all"}, {"op": "sleep", "d": 5.6},
                {"op": "get_reusable", "ex": "e", "kw": dict(kw, max_workers=new), "resize": [kw["max_workers"], new]},
                {"op": "sleep", "d": 1.5}, {"op": "quiesce", "ex": ["e"], "settle": False, "after_resize": True},
                {"op": "submit", "ex": "e", "task": t_ok(rng)}, {"op": "wait", "futs": "all"}]
    ops += [{"op": "wait", "futs": "all"}, {"op": "quiesce", "ex": ["e"]}]
    threads = [ops]
    prog = {"threads": threads, "end": "return"}
    if family == "plain" and rng.random() < 0.4:
        # a second thread keeps submitting on the executor it holds while the first one resizes
        family = "concurrent_submitter"
        sub = [{"op": "barrier", "name": "go"}]
        for _ in range(rng.randint(10, 40)):
            sub.append({"op": "submit", "ex": "e", "task": t_ok(rng)})
            if rng.random() < 0.4:
                sub.append({"op": "sleep", "d": rng.choice([0.001, 0.01, 0.03])})
        ops.insert(3, {"op": "barrier", "name": "go"})
        threads.append(sub)
        prog["barriers"] = {"go": 2}
        prog["tail"] = [{"op": "wait", "futs": "all"}, {"op": "quiesce", "ex": ["e"]}]
    return prog, {"gen": "g_resize", "kw": kw, "old": old, "family": family}


# ---------------------------------------------------------------------------
def _nest_chain(rng, depth_to, ctxs=("loky",), timeouts=(10,), fork_at=None, level=1, variants=False, init_at=None):
    """Spec of a nested task that builds an executor at worker level `level` and
    recurses until depth_to (inclusive: the innermost one only tries to construct).
    init_at: at that level the chain ends with a pool whose workers build one more executor *in their initializer*
    (depth level+1) which a later task of the same worker uses."""
    if init_at == level:
        inner = {"kind": rng.choice(["plain", "reusable"]), "kw": {"max_workers": 1, "timeout": 10}}
        probe = {"k": "probe", "what": ["depth", "pid"]}
        return {"k": "nested", "kind": "plain", "kw": {"max_workers": 1, "timeout": 10}, "init_nested": inner,
                "sub": [dict(probe), {"k": "use_init_nested", "sub": [dict(probe), dict(probe)]}, dict(probe)], "then": "wait", "shutdown": True}
    kind = rng.choice(["reusable", "plain"])
    kw = {"max_workers": rng.randint(1, 2), "timeout": rng.choice(timeouts)}
    ctx = rng.choice(ctxs)
    if ctx != "loky" or kind == "plain":
        kw["context"] = ctx
    if fork_at == level:
        kind = "plain"
        kw["context"] = "fork"
    sub = [{"k": "probe", "what": ["depth", "pid"]}]
    if variants and rng.random() < 0.5:
        # the nested pool's own manager thread has to respawn its workers: idle timeout shorter than the pickling of the next task
        kw["timeout"] = 0.05
        kw["max_workers"] = 1
        sub += [{"k": "probe", "what": ["depth", "pid"], "arg": ["slow_pickle", 0.25]}, {"k": "probe", "what": ["depth", "pid"], "arg": ["slow_pickle", 0.25]}]
    if level < depth_to:
        sub.append(_nest_chain(rng, depth_to, ctxs, timeouts, fork_at, level + 1, variants, init_at))
        sub.append({"k": "probe", "what": ["depth", "pid"]})
        if rng.random() < 0.4:
            sub.append({"k": "sleep", "d": 0.02})
    spec = {"k": "nested", "kind": kind, "kw": kw, "sub": sub, "then": "wait", "shutdown": kind == "plain"}
    if variants and rng.random() < 0.4:
        spec["via_thread"] = True
    if fork_at == level and variants and rng.random() < 0.5:
        # fork requested implicitly: loky's process-wide default start method, no explicit context
        spec["kind"] = "plain"
        spec["kw"] = {k: v for k, v in kw.items() if k != "context"}
        spec["default_method"] = "fork"
    return spec


def g_depth(rng, family=None):
    """C19: chains of nested executors up to MAX_DEPTH+1, with reuse / respawn / resize histories.
    family 'init_nested': somewhere in the chain an executor is built by a worker's initializer and used by a later task."""
    maxd = rng.choice([1, 2, 3, 4, None, 0, -1]) if family != "init_nested" else rng.choice([2, 3, 3, 4, None, 0])
    env = {} if maxd is None else {"LOKY_MAX_DEPTH": str(maxd)}
    limit = 10 if maxd is None else maxd
    if limit > 0:
        depth_to = min(limit, 4) if maxd is None else limit
    else:
        depth_to = rng.choice([3, 5])
    fork_at = rng.choice([None, None, None, 1, 2]) if depth_to >= 1 else None
    tmo = rng.choice([10, 10, 0.1])
    kind = rng.choice(["reusable", "plain"])
    kw = {"max_workers": rng.randint(1, 2), "timeout": tmo}
    ops = [{"op": "new", "ex": "e", "kind": kind, "kw": kw}]
    ops.append({"op": "submit", "ex": "e", "task": {"k": "probe", "what": ["depth", "pid"]}})
    variants = rng.random() < 0.5
    init_at = None
    if family == "init_nested":
        # at the limit (the initializer's construction must be refused) or right below the top (it must succeed, one level deeper)
        init_at = rng.choice([max(1, depth_to - 1), 1])
        fork_at = None
    if family == "fork_top":
        # the top-level executor itself uses the fork context (allowed at depth 0): its workers inherit the parent's module state,
        # including the very context object (multiprocessing's per-method singleton) that was accepted there, and ask for it again
        kind = "plain"
        kw.update(context="fork", timeout=10)
        ops[0] = {"op": "new", "ex": "e", "kind": kind, "kw": kw}
        fork_at = 1
        tmo = 10
    ops.append({"op": "submit", "ex": "e", "task": _nest_chain(rng, depth_to, ctxs=("loky", "loky", "loky_init_main"), timeouts=(10, 10, 0.1), fork_at=fork_at, variants=variants, init_at=init_at)})
    if family == "fork_top":
        # ... and a sibling chain that asks for loky workers from the forked worker (allowed while below the limit)
        ops.append({"op": "submit", "ex": "e", "task": _nest_chain(rng, min(depth_to, 2), timeouts=(10,))})
    ops.append({"op": "wait", "futs": "all"})
    r = rng.random()
    if r < 0.35:
        # the same workers are reused by a second chain
        ops.append({"op": "submit", "ex": "e", "task": _nest_chain(rng, depth_to, timeouts=(10,))})
    elif r < 0.6 and tmo < 1:
        ops += [{"op": "sleep", "d": 0.4}, {"op": "submit", "ex": "e", "task": _nest_chain(rng, min(depth_to, 2), timeouts=(10,))}]
    elif r < 0.8 and kind == "reusable":
        ops += [{"op": "get_reusable", "ex": "e", "kw": dict(kw, max_workers=3)}, {"op": "submit", "ex": "e", "task": {"k": "probe", "what": ["depth", "pid"]}},
                {"op": "submit", "ex": "e", "task": {"k": "probe", "what": ["depth", "pid"]}}, {"op": "submit", "ex": "e", "task": {"k": "probe", "what": ["depth", "pid"]}}]
    ops += [{"op": "wait", "futs": "all"}, {"op": "shutdown", "ex": "e", "wait": True}]
    return {"threads": [ops], "end": "return"}, {"gen": "g_depth", "max_depth": maxd, "depth_to": depth_to, "fork_at": fork_at, "kind": kind, "env": env, "variants": variants, "family": family, "init_at": init_at}


def g_fresh(rng, force_init=None, force_exc=None, force_drain=False):
    """C18: canary descriptors, env overlays, initializer on every kind of worker arrival."""
    ctx = rng.choice(["loky", "loky", "loky", "loky_init_main"])
    kind = rng.choice(["plain", "reusable"])
    tmo = rng.choice([10, 0.1, 0.05])
    if force_drain:
        tmo = rng.choice([0.1, 0.05])
    mw = rng.randint(1, 3)
    overlay = {}
    for i in range(rng.randint(0, 3)):
        overlay[rng.choice(["LV_A", "LV_B", "PATH_EXTRA", "LV_EMPTY", "HOME"])] = rng.choice(["1", "x y", "", "/tmp/é".encode("ascii", "ignore").decode(), "a=b"])
    init_variant = force_init or rng.choice(["none", "token", "token", "fail_nth", "leak0"])
    kw = {"max_workers": mw, "timeout": tmo}
    if ctx != "loky" or kind == "plain":
        kw["context"] = ctx
    if overlay and ctx == "loky":
        kw["env"] = overlay
    counter = "$CASE/initcount"
    if init_variant == "token":
        kw["initializer"] = {"token": "T%d" % rng.randint(0, 9)}
    elif init_variant == "fail_nth":
        kw["initializer"] = {"token": "T", "counter_file": counter, "fail_on": [rng.randint(1, mw + 2)], "fail_exc": force_exc or rng.choice(["RuntimeError", "UserWarning", "SystemExit"])}
    elif init_variant == "leak0":
        kw["initializer"] = {"token": "L", "leak0": True}
    ops = []
    canaries = []
    for i in range(rng.randint(1, 4)):
        c = {"kind": rng.choice(["pipe", "socket", "file"]), "inheritable": rng.random() < 0.6}
        if rng.random() < 0.5:
            c["at"] = rng.choice([50, 200, 333, 700, 1000]) + 10 * i
        canaries.append(c)
    ops.append({"op": "canary", "fds": canaries})
    if rng.random() < 0.5:
        ops.append({"op": "setenv", "env": {"LV_PARENT": rng.choice(["p1", ""]), "LV_A": "parent"}})
    ops.append({"op": "new", "ex": "e", "kind": kind, "kw": kw})
    what = ["init", "main", "pid"]
    for i in range(rng.randint(1, 2 * mw)):
        ops.append({"op": "submit", "ex": "e", "task": {"k": "probe", "what": what}})
    ops.append({"op": "keeplists", "ex": "e"})
    ops.append({"op": "wait", "futs": "all"})
    if rng.random() < 0.6:
        # the parent's environment changes between two waves of spawns (a variable modified, one deleted, one added)
        ops.append({"op": "setenv", "env": {"LV_PARENT": rng.choice(["p2", None]), "LV_A": None, "LV_LATE": "late", "LV_B": "parent-b"}})
    if tmo < 1:
        ops += [{"op": "sleep", "d": 4 * tmo}]
        for i in range(rng.randint(1, mw + 1)):
            ops.append({"op": "submit", "ex": "e", "task": {"k": "probe", "what": what}})
        ops += [{"op": "keeplists", "ex": "e"}, {"op": "wait", "futs": "all"}]
    if kind == "reusable":
        ops.append({"op": "get_reusable", "ex": "e", "kw": dict(kw, max_workers=mw + 2)})
        for i in range(mw + 3):
            ops.append({"op": "submit", "ex": "e", "task": {"k": "probe", "what": what}})
        ops += [{"op": "keeplists", "ex": "e"}, {"op": "wait", "futs": "all"}]
    drain = False
    if tmo < 1 and init_variant in ("token", "leak0") and rng.random() < (1.0 if force_drain else 0.3):
        # work still on its way (slow to pickle) when the shutdown is requested: the workers that idle out during the drain are
        # respawned by the manager thread of an executor that is already shutting down - still with the initializer
        drain = True
        for i in range(rng.randint(2, 4)):
            ops.append({"op": "submit", "ex": "e", "task": {"k": "probe", "what": what, "arg": ["slow_pickle", round(rng.choice([4, 8]) * tmo + 0.1, 3)]}})
        ops.append({"op": "shutdown", "ex": "e", "wait": rng.random() < 0.5})
    ops += [{"op": "wait", "futs": "all"}, {"op": "shutdown", "ex": "e", "wait": True}]
    return {"threads": [ops], "end": "return"}, {"gen": "g_fresh", "ctx": ctx, "kind": kind, "kw": kw, "init": init_variant, "overlay": overlay, "as_module": rng.random() < 0.35, "drain": drain}


ALL_SIGNALS = ["SIGHUP", "SIGINT", "SIGQUIT", "SIGILL", "SIGTRAP", "SIGABRT", "SIGBUS", "SIGFPE", "SIGKILL", "SIGUSR1", "SIGSEGV", "SIGUSR2", "SIGPIPE",
               "SIGALRM", "SIGTERM", "SIGXCPU", "SIGXFSZ", "SIGVTALRM", "SIGPROF", "SIGIO", "SIGPWR", "SIGSYS", "SIGSTKFLT"]


def g_exitstatus(rng, full=False):
    codes = list(range(256)) if full else sorted(set([0, 1, 2, 127, 128, 255] + [rng.randint(0, 255) for _ in range(22)]))
    sigs = ALL_SIGNALS if full else rng.sample(ALL_SIGNALS, 8)
    ways = []
    for c in codes:
        ways.append([rng.choice(["os_exit", "cexit", "sys_exit"]) if not full else "os_exit", c])
    if full:
        ways += [["cexit", c] for c in codes[::5]] + [["sys_exit", c] for c in codes[::5]]
    ways += [["signal", s] for s in sigs]
    ways += [["return", 0], ["raise", 1]]
    ctx = rng.choice(["loky", "loky_init_main"])
    ops = [{"op": "exitstatus", "ways": ways, "ctx": ctx, "batch": 12, "hold": 0.3}]
    return {"threads": [ops], "end": "return"}, {"gen": "g_exitstatus", "ctx": ctx, "n": len(ways)}


def _lifecycle(rng, how=None):
    kind = rng.choice(["plain", "plain", "reusable", "nested"])
    how = how or rng.choice(["wait", "nowait", "with", "del", "killed", "broken", "broken_dropped", "timeout", "resized", "spawn_fails", "unused"])
    if how == "unused":
        # created and ended before the first submit: the manager thread never ran, nobody else closes what __init__ opened
        k2 = rng.choice(["plain", "plain", "reusable"])
        end = rng.choice(["wait", "nowait", "with", "del"] if k2 == "plain" else ["wait", "replaced", "replaced_kill"])
        kw = {"max_workers": rng.randint(1, 3), "timeout": rng.choice([10, 20])}
        body = [{"op": "new", "ex": "x", "kind": k2, "kw": kw}]
        if end == "wait":
            body.append({"op": "shutdown", "ex": "x", "wait": True})
        elif end == "nowait":
            body.append({"op": "shutdown", "ex": "x", "wait": False})
        elif end == "with":
            body = [body[0], {"op": "with", "ex": "x", "body": []}]
        elif end == "del":
            body.append({"op": "del", "ex": "x"})
        else:
            body.append({"op": "get_reusable", "ex": "x", "kw": dict(kw, timeout=kw["timeout"] + 5, **({"kill_workers": True} if end == "replaced_kill" else {}))})
            body.append({"op": "shutdown", "ex": "x", "wait": True})
        body.append({"op": "forget", "ex": ["x"]})
        return body, "%s/unused-%s" % (k2, end)
    if how == "spawn_fails":
        # the worker process object cannot be pickled (unpicklable initargs): every submit raises, nothing may be left open
        k2 = rng.choice(["plain", "reusable"])
        body = [{"op": "new", "ex": "x", "kind": k2, "kw": {"max_workers": rng.randint(1, 3), "timeout": 10, "initializer": {"token": "u", "unpicklable": True}}}]
        for _ in range(rng.randint(1, 3)):
            body.append({"op": "submit", "ex": "x", "task": t_ok(rng)})
        body += [{"op": "shutdown", "ex": "x", "wait": True}, {"op": "forget", "ex": ["x"]}]
        return body, "%s/spawn_fails" % k2
    mw = rng.randint(1, 3)
    tmo = 0.05 if how == "timeout" else rng.choice([None, 10])
    body = []
    if kind == "reusable" or how == "resized":
        kw = {"max_workers": mw, "timeout": tmo if tmo is not None else 10}
        body.append({"op": "new", "ex": "x", "kind": "reusable", "kw": kw})
        kind = "reusable"
    else:
        body.append({"op": "new", "ex": "x", "kind": "plain", "kw": {"max_workers": mw, "timeout": tmo}})
    n = rng.randint(1, 5)
    for i in range(n):
        if kind == "nested" and i == 0:
            body.append({"op": "submit", "ex": "x", "task": {"k": "nested", "kind": "plain", "kw": {"max_workers": 1, "timeout": None}, "sub": [{"k": "ok", "x": 1}], "then": "wait", "shutdown": True}})
        else:
            body.append({"op": "submit", "ex": "x", "task": benign_task(rng, slow_ok=False)})
    big = how in ("broken", "killed", "broken_dropped") and rng.random() < 0.5
    if big:
        # more call items in flight than the call queue's pipe can hold (64 KiB) when the workers go away
        for _ in range(rng.randint(3, 6)):
            body.append({"op": "submit", "ex": "x", "task": {"k": "sleep", "d": 0.2, "arg": ["blob", 60000]}})
    if how in ("broken", "broken_dropped"):
        body.append({"op": "submit", "ex": "x", "task": t_breaking(rng)})
    if how == "killed":
        body.append({"op": "submit", "ex": "x", "task": {"k": "endless"}})
        body.append({"op": "sleep", "d": 0.05})
        body.append({"op": "shutdown", "ex": "x", "kill_workers": True})
        body.append({"op": "wait", "futs": "all"})
    else:
        body.append({"op": "wait", "futs": "all"})
        if how == "timeout":
            body.append({"op": "sleep", "d": 0.3})
            body.append({"op": "submit", "ex": "x", "task": t_ok(rng)})
            body.append({"op": "wait", "futs": "all"})
        if how == "resized":
            body.append({"op": "get_reusable", "ex": "x", "kw": dict(kw, max_workers=mw + 1)})
            body.append({"op": "submit", "ex": "x", "task": t_ok(rng)})
            body.append({"op": "wait", "futs": "all"})
        if how in ("wait", "broken", "timeout", "resized", "killed") or (kind == "reusable" and how == "del"):
            body.append({"op": "shutdown", "ex": "x", "wait": True})
        elif how == "nowait":
            body += [{"op": "shutdown", "ex": "x", "wait": False}, {"op": "join_mgr", "ex": "x"}]
        elif how == "with":
            body = [body[0], {"op": "with", "ex": "x", "body": body[1:]}]
        elif how in ("del", "broken_dropped"):
            # broken_dropped: a broken pool that is released without any shutdown() call
            body += [{"op": "del", "ex": "x"}, {"op": "join_mgr", "ex": "x"}]
    body.append({"op": "forget", "ex": ["x"]})
    return body, "%s/%s%s" % (kind, how, "+big" if big else "")


def g_life(rng, force_how=None):
    """C20: the same history once (warm-up) then N more times; censuses must be equal."""
    nl = rng.choice([1, 1, 2, 3])
    body = []
    names = []
    for i in range(nl):
        b, nm = _lifecycle(rng, how=force_how if i == 0 else None)
        body += b
        names.append(nm)
    N = rng.choice([2, 5, 20]) if nl == 1 else rng.choice([2, 5])
    ops = list(body) + [{"op": "census", "tag": "after_1", "grace": 8.0}, {"op": "repeat", "n": N, "body": body}, {"op": "census", "tag": "after_1+N", "grace": 8.0}]
    return {"threads": [ops], "end": "return"}, {"gen": "g_life", "lifecycles": names, "N": N}


# ---------------------------------------------------------------------------
PRIMS = ["Lock", "RLock", "Semaphore", "BoundedSemaphore", "Condition", "Event", "Queue", "SimpleQueue"]


def g_sem(rng, pre_unlink=None):
    """C13: creation / disposal of primitives and executors, every way of ending.
    pre_unlink: some objects have their semaphore names removed behind their back right before they are released."""
    if pre_unlink is None:
        pre_unlink = rng.random() < 0.2
    ops = []
    live = []
    n = 0
    ctx = rng.choice(["loky", "loky", "loky_init_main"])
    extra_threads = []
    if rng.random() < 0.3:
        # several threads use the tracker for the first time at the same instant
        nth = rng.randint(2, 4)
        ops.append({"op": "barrier", "name": "first"})
        for j in range(1, nth):
            extra_threads.append([{"op": "barrier", "name": "first"}, {"op": "mk", "obj": "c%d" % j, "type": rng.choice(["Lock", "Semaphore", "Event"]), "ctx": ctx, "n": 1}])
            live.append("c%d" % j)
        ops.append({"op": "mk", "obj": "c0", "type": "Semaphore", "ctx": ctx, "n": 1})
        live.append("c0")
        ops.append({"op": "sleep", "d": 0.3})
        ops.append({"op": "shmlist"})
    for step in range(rng.randint(2, 9)):
        r = rng.random()
        if r < 0.45 or not live:
            n += 1
            nm = "o%d" % n
            ops.append({"op": "mk", "obj": nm, "type": rng.choice(PRIMS), "ctx": ctx, "n": rng.randint(1, 3), "use": rng.random() < 0.5})
            live.append(nm)
        elif r < 0.7:
            nm = live.pop(rng.randrange(len(live)))
            ops.append({"op": "drop", "obj": nm, "pre_unlink": pre_unlink and rng.random() < 0.6})
        elif r < 0.85:
            ops.append({"op": "use_obj", "obj": rng.choice(live), "ctx": ctx, "how": rng.choice(["touch", "touch", "crash"])})
        else:
            ops.append({"op": "shmlist"})
    use_exec = rng.random() < 0.65
    ending = rng.choice(["return", "return", "raise", "sys_exit", "os_exit", "os_exit", "crash_worker", "killself", "return_live"])
    tmo = 0.3
    crash = False
    if use_exec:
        kind = rng.choice(["plain", "reusable"])
        kw = {"max_workers": rng.randint(1, 3), "timeout": tmo if ending == "killself" else rng.choice([10, 0.3])}
        if kind == "plain" and ctx != "loky":
            kw["context"] = ctx
        ops.append({"op": "new", "ex": "e", "kind": kind, "kw": kw})
        for i in range(rng.randint(1, 6)):
            ops.append({"op": "submit", "ex": "e", "task": t_ok(rng) if rng.random() < 0.7 else t_sleep(rng)})
        if ending == "crash_worker":
            ops.append({"op": "submit", "ex": "e", "task": t_die(rng)})
            crash = True
        if ending != "killself":
            ops.append({"op": "wait", "futs": "all"})
        if ending in ("return", "crash_worker") or (ending == "raise" and rng.random() < 0.5):
            ops.append({"op": "shutdown", "ex": "e", "wait": True})
            if kind == "plain":
                ops += [{"op": "del", "ex": "e"}]
    elif ending in ("crash_worker",):
        ending = "return"
    released_all = False
    if ending in ("return", "crash_worker") and rng.random() < 0.7:
        for nm in live:
            ops.append({"op": "drop", "obj": nm, "pre_unlink": pre_unlink and rng.random() < 0.6})
        live = []
        ops.append({"op": "forget", "ex": ["e"]})
        if not (use_exec and kind == "reusable"):
            ops.append({"op": "shmlist", "expect_empty": True})
        released_all = True
    end = {"return": "return", "return_live": "return", "crash_worker": "return", "raise": "raise", "sys_exit": "sys_exit", "os_exit": "os_exit", "killself": "killself"}[ending]
    prog = {"threads": [ops] + extra_threads, "end": end}
    if extra_threads:
        prog["barriers"] = {"first": 1 + len(extra_threads)}
    meta = {"gen": "g_sem", "ctx": ctx, "ending": ending, "concurrent_first_use": bool(extra_threads), "use_exec": use_exec, "released_all": released_all, "crash": crash or any(o.get("how") == "crash" for o in ops), "pre_unlink": bool(pre_unlink)}
    return prog, meta


def g_tree(rng, force_variant=None):
    """C12: a process tree of depth 0-3 reporting to one tracker; deaths in several orders."""
    depth = rng.choice([0, 1, 1, 2, 3])
    ctxs = ("loky", "loky", "loky_init_main")
    tmo = rng.choice([0.5, 1.0])
    ops = [{"op": "tracker", "what": "ensure"}, {"op": "tracker", "what": "register_file", "name": "res0"}]
    kw = {"max_workers": rng.randint(1, 3), "timeout": tmo}
    if rng.random() < 0.4:
        kw["context"] = "loky_init_main"
    ops.append({"op": "new", "ex": "e", "kind": rng.choice(["plain", "reusable"]), "kw": kw})

    def chain(level):
        sub = [{"k": "probe", "what": ["tracker", "pid", "depth"]}]
        if level < depth:
            sub.append(chain(level + 1))
        c = rng.choice(ctxs)
        k = rng.choice(["reusable", "plain"])
        kkw = {"max_workers": rng.randint(1, 2), "timeout": tmo}
        if c != "loky" or k == "plain":
            kkw["context"] = c
        return {"k": "nested", "kind": k, "kw": kkw, "sub": sub, "then": "wait", "shutdown": k == "plain"}

    for i in range(rng.randint(1, 3)):
        ops.append({"op": "submit", "ex": "e", "task": {"k": "probe", "what": ["tracker", "pid", "depth"]}})
    if depth >= 1:
        ops.append({"op": "submit", "ex": "e", "task": chain(1)})
    ops.append({"op": "wait", "futs": "all"})
    variant = force_variant or rng.choice(["signals", "signals", "kill_tracker", "root_first", "leaves_first", "kill_worker", "plain", "bad_request"])
    if variant == "bad_request":
        for i in range(rng.randint(1, 3)):
            ops.append({"op": "tracker", "what": "bad_request", "kind": rng.choice(["unknown_type", "unregister_untracked", "maybe_unlink_untracked", "garbage"])})
        ops.append({"op": "tracker", "what": "register_file", "name": "res1"})
        ops.append({"op": "submit", "ex": "e", "task": {"k": "probe", "what": ["tracker", "pid", "depth"]}})
        ops.append({"op": "wait", "futs": "all"})
    elif variant == "signals":
        for i in range(rng.randint(1, 4)):
            ops.append({"op": "tracker", "what": "signal", "sig": rng.choice(["SIGINT", "SIGTERM"]), "settle": 0.05})
        ops.append({"op": "tracker", "what": "register_file", "name": "res1"})
    elif variant == "kill_tracker":
        for i in range(rng.randint(1, 3)):
            ops.append({"op": "tracker", "what": "kill"})
            ops.append({"op": "tracker", "what": rng.choice(["mk_sem", "register_file", "spawn_probe", "spawn_probe"]), "obj": "s%d" % i, "name": "resk%d" % i, "ctx": rng.choice(["loky", "loky_init_main"])})
            if rng.random() < 0.5:
                ops.append({"op": "submit", "ex": "e", "task": {"k": "probe", "what": ["pid"]}})
                ops.append({"op": "wait", "futs": "all"})
    elif variant == "kill_worker":
        ops.append({"op": "kill", "ex": "e", "which": 0, "sig": rng.choice(["SIGKILL", "SIGTERM"])})
        ops.append({"op": "sleep", "d": 0.2})
    threads_extra = []
    if variant == "kill_tracker" and rng.random() < 0.5:
        nth = rng.randint(2, 4)
        ops.append({"op": "tracker", "what": "kill"})
        ops.append({"op": "barrier", "name": "tk"})
        ops.append({"op": "tracker", "what": "register_file", "name": "resc0"})
        for j in range(1, nth):
            threads_extra.append([{"op": "barrier", "name": "tk"}, {"op": "tracker", "what": rng.choice(["register_file", "register_file", "mk_sem"]), "name": "resc%d" % j, "obj": "sc%d" % j}])
        ops.append({"op": "sleep", "d": 0.3})
    end = "return"
    if variant == "root_first":
        # keep workers busy so that they outlive the root by at least a second
        for i in range(kw["max_workers"]):
            ops.append({"op": "submit", "ex": "e", "task": {"k": "sleep", "d": 1.5}})
        ops.append({"op": "sleep", "d": 0.3})
        end = "killself"
    elif variant == "leaves_first":
        ops.append({"op": "shutdown", "ex": "e", "wait": True})
        ops.append({"op": "tracker", "what": "ensure"})
        ops.append({"op": "sleep", "d": 0.2})
    ops.append({"op": "tracker", "what": "ensure", "final": True})
    main_tracked = rng.random() < 0.4
    prog = {"threads": [ops] + threads_extra, "end": end}
    if threads_extra:
        prog["barriers"] = {"tk": 1 + len(threads_extra)}
    return prog, {"gen": "g_tree", "depth": depth, "variant": variant, "kw": kw, "main_level_tracked": main_tracked, "racing_relaunch": bool(threads_extra)}
