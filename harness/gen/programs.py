"""Seeded program generators (DESIGN section 3). A program is JSON for lv_driver."""

TIMEOUTS = [None, 2, 0.2, 0.05, 0.005]

BENIGN_RAISES = ["ValueError", "KeyError", "LvError", "SystemExit", "KeyboardInterrupt", "RuntimeError"]


def t_ok(rng):
    return {"k": "ok", "x": rng.randint(0, 999)}


def t_sleep(rng, lo=0.005, hi=0.08):
    return {"k": "sleep", "d": round(rng.uniform(lo, hi), 3)}


def t_raise(rng):
    e = rng.choice(BENIGN_RAISES)
    args = [rng.randint(0, 99)] if e != "KeyError" else ["k%d" % rng.randint(0, 9)]
    if e == "SystemExit" and rng.random() < 0.3:
        args = []
    return {"k": "raise", "e": e, "args": args}


def t_bad_result_pickle(rng):
    return {"k": "bad_result_pickle", "e": rng.choice(["ZeroDivisionError", "ValueError", "SystemExit"])}


def t_bad_arg_pickle(rng):
    return {"k": "ok", "x": 1, "arg": ["bad_pickle", rng.choice(["ZeroDivisionError", "ValueError", "SystemExit", "struct.error"])]}


def t_slow_pickle(rng, d=None):
    return {"k": "ok", "x": 2, "arg": ["slow_pickle", d if d is not None else round(rng.uniform(0.02, 0.15), 3)]}


def t_die(rng, delay=None):
    how, code = rng.choice(
        [("sig", "SIGKILL"), ("sig", "SIGSEGV"), ("sig", "SIGTERM"), ("exit", 3), ("exit", 0), ("cexit", 7), ("sig", "SIGABRT")]
    )
    s = {"k": "die", "how": how, "code": code}
    if delay:
        s["d"] = delay
    return s


def t_breaking(rng):
    r = rng.random()
    if r < 0.55:
        return t_die(rng, delay=rng.choice([0, 0, 0.02]))
    if r < 0.7:
        return {"k": "bad_result_unpickle"}
    if r < 0.85:
        return {"k": "ok", "x": 3, "arg": ["bad_unpickle", "ZeroDivisionError"]}
    return {"k": "die_in_gc", "how": "exit", "code": rng.choice([0, 4])}


def benign_task(rng, slow_ok=True):
    r = rng.random()
    if r < 0.45:
        return t_ok(rng)
    if r < 0.65:
        return t_sleep(rng)
    if r < 0.78:
        return t_raise(rng)
    if r < 0.86:
        return t_bad_result_pickle(rng)
    if r < 0.94:
        return t_bad_arg_pickle(rng)
    return t_slow_pickle(rng) if slow_ok else t_ok(rng)


def ex_kw(rng, timeouts=TIMEOUTS, max_w=4, init_p=0.0):
    kw = {"max_workers": rng.randint(1, max_w), "timeout": rng.choice(timeouts)}
    if rng.random() < init_p:
        kw["initializer"] = {"token": "tok%d" % rng.randint(0, 99)}
    return kw


def g_mix(rng, p_break=0.35, p_reusable=0.5, max_tasks=30):
    """C01: anything goes. 1-2 executors, 1-3 threads, all task kinds, cancel /
    resize / shutdown(wait=*) / del / get_reusable, every way of ending."""
    kind = "reusable" if rng.random() < p_reusable else "plain"
    kw = ex_kw(rng)
    if kind == "reusable" and kw["timeout"] is None:
        kw["timeout"] = rng.choice([10, 0.2, 0.05])
    nthreads = rng.choice([1, 1, 2, 3])
    will_break = rng.random() < p_break
    threads = []
    setup = [{"op": "new", "ex": "e", "kind": kind, "kw": kw}]
    total = rng.randint(5, max_tasks)
    per = max(2, total // nthreads)
    shutdown_done = False
    for ti in range(nthreads):
        ops = []
        for i in range(per):
            r = rng.random()
            if will_break and r < 0.06:
                ops.append({"op": "submit", "ex": "e", "task": t_breaking(rng)})
            elif r < 0.70:
                ops.append({"op": "submit", "ex": "e", "task": benign_task(rng), "raising_cb": rng.random() < 0.05})
            elif r < 0.76:
                ops.append({"op": "cancel", "fut": "__recent__"})
            elif r < 0.84:
                ops.append({"op": "sleep", "d": rng.choice([0.001, 0.01, 0.06, 0.25])})
            elif r < 0.90 and kind == "reusable":
                kw2 = dict(kw, max_workers=rng.randint(1, 4))
                if rng.random() < 0.2:
                    kw2["timeout"] = rng.choice([10, 0.2, 0.05])
                if rng.random() < 0.15:
                    kw2["kill_workers"] = True
                ops.append({"op": "get_reusable", "ex": "e", "kw": kw2})
            elif r < 0.93:
                ops.append({"op": "wait", "futs": "all"})
            elif r < 0.96 and not shutdown_done and ti == 0 and i > per // 2:
                ops.append({"op": "shutdown", "ex": "e", "wait": rng.random() < 0.5})
                shutdown_done = True
            else:
                ops.append({"op": "submit", "ex": "e", "task": t_ok(rng)})
        threads.append(ops)
    threads[0] = setup + threads[0]
    # fix up cancels: refer to a future submitted earlier in the same thread
    for ti, ops in enumerate(threads):
        n = 0
        last_sub = None
        for op in ops:
            n += 1
            oid = "t%d.%d" % (ti, n)
            if op["op"] == "submit":
                last_sub = oid
            if op["op"] == "cancel":
                if last_sub is None:
                    op["op"] = "sleep"
                    op["d"] = 0.001
                    op.pop("fut")
                else:
                    op["fut"] = last_sub
    end = rng.choice(["wait_shutdown", "wait_only", "return", "shutdown_nowait", "del", "wait_shutdown"])
    tail = []
    if end == "wait_shutdown":
        tail = [{"op": "wait", "futs": "all"}, {"op": "shutdown", "ex": "e", "wait": True}]
    elif end == "wait_only":
        tail = [{"op": "wait", "futs": "all"}]
    elif end == "shutdown_nowait":
        tail = [{"op": "shutdown", "ex": "e", "wait": False}]
    elif end == "del":
        tail = [{"op": "del", "ex": "e"}]
    prog = {"threads": threads, "end": "return", "tail": tail}
    if nthreads > 1:
        # threads other than 0 must not start before the executor exists
        prog["barriers"] = {"start": nthreads}
        for ti, ops in enumerate(threads):
            if ti == 0:
                ops.insert(1, {"op": "barrier", "name": "start"})
            else:
                ops.insert(0, {"op": "barrier", "name": "start"})
        renumber_cancels(threads)
    meta = {"gen": "g_mix", "kind": kind, "kw": kw, "nthreads": nthreads, "will_break": will_break, "ending": end}
    return prog, meta


def renumber_cancels(threads):
    for ti, ops in enumerate(threads):
        n = 0
        last_sub = None
        for op in ops:
            n += 1
            oid = "t%d.%d" % (ti, n)
            if op["op"] == "submit":
                last_sub = oid
            if op["op"] == "cancel" and last_sub is not None:
                op["fut"] = last_sub
            elif op["op"] == "cancel":
                op["op"] = "sleep"
                op["d"] = 0.001
                op.pop("fut", None)
