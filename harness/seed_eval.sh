#!/bin/sh
# usage: harness/seed_eval.sh <patch.diff> <label> <Cxx> [<Cxx>...]  -- run quick checks against a scratch worktree with the patch applied
PATCH=$1; L=$2; shift 2
D=/tmp/sv-$L
rm -rf $D /tmp/sv-out-$L
git -C /repo worktree add -q --detach $D HEAD || exit 3
git -C $D apply $PATCH || { echo "patch does not apply"; git -C /repo worktree remove --force $D; exit 3; }
cd /verif
for P in "$@"; do
  VERIF_OUT=/tmp/sv-out-$L VERIF_REPO=$D VERIF_SEED=${VERIF_SEED:-0} VERIF_TMP=/tmp ./check $P --tier ${TIER:-quick} > /tmp/sv-$L-$P.log 2>&1 && rc=0 || rc=$?
  echo "seed $L, check $P: exit $rc; $(grep -c '^VIOLATION' /tmp/sv-$L-$P.log) VIOLATION, $(grep -c '^KNOWN' /tmp/sv-$L-$P.log) KNOWN"
  VERIF_OUT=/tmp/sv-out-$L /venv/bin/python -m harness.triage $P 2>/dev/null | cut -c1-330 | head -6
done
rm -rf /tmp/sv-out-$L
git -C /repo worktree remove --force $D
