"""Developer aid: group saved replays of a property by mechanism signature."""
import json, os, sys, importlib
from . import runner, common
from .analysis import Facts

def main(prop):
    mod = importlib.import_module("harness.checks.%s" % prop)
    chk = getattr(mod, prop)()
    root = os.path.join(common.OUT, "replays", prop)
    groups = {}
    for n in sorted(os.listdir(root)):
        d = os.path.join(root, n)
        try:
            case = json.load(open(os.path.join(d, "case.json")))
        except Exception:
            continue
        h = runner.History(case, d)
        F = Facts(h)
        for sig, text in chk.oracle(case, F):
            key = json.dumps({k: sig.get(k) for k in ("clause","mgr_in","user_in","mgr_exception","mgr_exception_in","open_op","exit_phase","shutdown_nowait","executor_deleted","finite_timeout","fault_kind","fault_func","mgr_alive")}, sort_keys=True)
            groups.setdefault(key, []).append(n)
    for k, v in sorted(groups.items(), key=lambda kv: -len(kv[1])):
        print(len(v), k)
        print("    ", v[:6])

if __name__ == "__main__":
    main(sys.argv[1])
