"""C15 supplementary scenarios (added after the second round of seeded changes):

S1  a user reducer whose key is a type loky registers itself (functools.partial, bound methods) must win
    over loky's built-in reducer - in a pickler, and as job_reducers of an executor; and only there.
S2  inside a worker of an executor that has job/result reducers, loky picklers created by the task itself
    (plain dumps, a nested executor without reducers) must not see those reducers.

Run as:  python -m harness.inproc.reduction_extra <repo> <backend>     (prints a JSON report)
"""
import functools
import json
import sys
import types


class Box:
    def __init__(self, v, marks=()):
        self.v, self.marks = v, tuple(marks)

    def get(self, k=0):
        return self.v + k


def _rebuild_box(v, marks):
    return Box(v, marks)


def box_reducer_7(b):
    return _rebuild_box, (b.v, b.marks + (7,))


def _user_partial(tag, func, args, keywords):
    return ("USER_PARTIAL", tag, func.__name__ if hasattr(func, "__name__") else repr(func), list(args), sorted((keywords or {}).items()))


def partial_reducer(p):
    return _user_partial, ("u1", p.func, p.args, p.keywords)


def _user_method(name, v):
    return ("USER_METHOD", name, v)


def method_reducer(m):
    return _user_method, (m.__func__.__name__, getattr(m.__self__, "v", None))


def add(a, b=0, c=0):
    return a + b + c


def task_make_partial():
    return functools.partial(add, 1, c=5)


def task_identity(x):
    return x if not callable(x) or isinstance(x, tuple) else ("CALLED", x(1))


def task_inner_pickling(_):
    """Runs in a worker of the outer executor: what do loky picklers created here do with a Box?"""
    from loky.backend.reduction import dumps, loads

    out = {}
    out["plain_dumps"] = list(loads(dumps(Box(1))).marks)
    from loky import ProcessPoolExecutor

    with ProcessPoolExecutor(max_workers=1) as inner:
        r = inner.submit(task_box_marks, Box(2)).result()
    out["nested_plain_executor_arg"] = r["arg_marks"]
    out["nested_plain_executor_result"] = list(r["result"].marks)
    import loky.backend.reduction as red

    out["registry_has_box"] = Box in getattr(red, "_dispatch_table", {})
    return out


def task_box_marks(b):
    return {"arg_marks": list(b.marks), "result": Box(5)}


def main(repo, backend):
    sys.path.insert(0, repo)
    import os

    import loky
    from loky import ProcessPoolExecutor, set_loky_pickler
    from loky.backend.reduction import dumps, loads

    assert os.path.realpath(os.path.dirname(loky.__file__)) == os.path.realpath(os.path.join(repo, "loky"))
    set_loky_pickler(backend)
    rep = {"backend": backend, "checks": 0, "violations": []}

    def check(clause, ok, text):
        rep["checks"] += 1
        if not ok:
            rep["violations"].append({"clause": clause, "text": text})

    # ---- S1, pickler level
    p = functools.partial(add, 1, c=5)
    got = loads(dumps(p, reducers={functools.partial: partial_reducer}))
    check("user_reducer_overridden_by_builtin", isinstance(got, tuple) and got[:2] == ("USER_PARTIAL", "u1"), "dumps(partial, reducers={functools.partial: user}) -> %r: loky's own partial reducer won over the user's" % (got,))
    got2 = loads(dumps(p))
    check("reducer_leaked_to_later_pickler", callable(got2) and got2(2) == 8, "a later dumps(partial) without reducers -> %r" % (got2,))
    m = Box(3).get
    gotm = loads(dumps(m, reducers={types.MethodType: method_reducer}))
    check("user_reducer_overridden_by_builtin", gotm == ("USER_METHOD", "get", 3), "dumps(bound method, reducers={MethodType: user}) -> %r" % (gotm,))
    gotm2 = loads(dumps(m))
    check("reducer_leaked_to_later_pickler", callable(gotm2) and gotm2(1) == 4, "a later dumps(bound method) without reducers -> %r" % (gotm2,))
    # ---- S1, executor level
    with ProcessPoolExecutor(max_workers=1, job_reducers={functools.partial: partial_reducer}, result_reducers={}) as ex, ProcessPoolExecutor(max_workers=1) as plain:
        r = ex.submit(task_identity, p).result()
        check("job_reducer_not_applied", isinstance(r, tuple) and r[:2] == ("USER_PARTIAL", "u1"), "executor(job_reducers={functools.partial: user}): the task received %r" % (r,))
        rr = ex.submit(task_make_partial).result()
        check("job_reducer_applied_to_result", callable(rr) and rr(2) == 8, "executor(job_reducers={functools.partial: user}, result_reducers={}): an explicit empty mapping means no user reducer for results, but a partial RETURNED by a task came back as %r" % (rr,))
        r2 = plain.submit(task_identity, p).result()
        check("reducer_leaked_to_other_executor", r2 == ("CALLED", 7), "side-by-side executor without reducers: the task received %r" % (r2,))
        # ---- S2
    with ProcessPoolExecutor(max_workers=1, result_reducers={Box: box_reducer_7}) as ex:
        inner = ex.submit(task_inner_pickling, 0).result()
        check("reducer_leaked_into_worker_registry", inner["plain_dumps"] == [], "inside a worker of an executor with result_reducers, a plain loky dumps(Box) carries marks %r" % inner["plain_dumps"])
        check("reducer_leaked_into_worker_registry", inner["nested_plain_executor_arg"] == [] and inner["nested_plain_executor_result"] == [], "nested plain executor inside that worker: argument marks %r, result marks %r" % (inner["nested_plain_executor_arg"], inner["nested_plain_executor_result"]))
        check("registry_mutated", inner["registry_has_box"] is False, "loky.backend.reduction._dispatch_table of the worker contains the executor's Box reducer")
        own = ex.submit(task_box_marks, Box(9)).result()
        check("result_reducer_not_applied", list(own["result"].marks) == [7], "the executor's own result reducer gives marks %r (expected [7])" % (list(own["result"].marks),))
    sys.stdout.write(json.dumps(rep))


if __name__ == "__main__":
    main(sys.argv[1], sys.argv[2])
