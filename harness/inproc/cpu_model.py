"""C17 engine: reference model of cpu_count() + substitution of its inputs.

Two independent halves:

* ``reference(...)`` / ``expected_for(...)`` -- the value the *property
  statement* asks for, written from the statement (integer arithmetic only, no
  code shared with loky).
* ``Substitution`` -- replaces, in this process only, every input the real
  ``loky.backend.context.cpu_count`` reads (OS count, affinity API, psutil,
  the three cgroup files, LOKY_MAX_CPU_COUNT, sys.platform, the per-platform
  physical-core probes and their cache) so that the REAL function can be run
  on arbitrary machines that do not exist.

A configuration ("cfg") is a JSON-able dict::

    {"os": None|int,
     "aff": {"mode": "api"|"psutil"|"notimpl_psutil"|"psutil_noattr"|"none", "n": int|None},
     "cg": {"layout": "absent"|"v2max"|"v2quota"|"v1"|"v1neg", "quota": int|None, "period": int|None},
     "override": None|int,
     "probe": {"kind": "ok"|"zero"|"raises"|"cached_ok"|"cached_fail", "n": int|None, "exc": str},
     "only_physical": bool,
     "platform": "linux"|"win32"|"darwin"}

Replay of one saved configuration:
    VERIF_REPO=/repo /venv/bin/python -m harness.inproc.cpu_model <dir>/config.json
"""
import builtins
import io
import json
import os
import sys
import types
import warnings

V2_MAX = "/sys/fs/cgroup/cpu.max"
V1_QUOTA = "/sys/fs/cgroup/cpu/cpu.cfs_quota_us"
V1_PERIOD = "/sys/fs/cgroup/cpu/cpu.cfs_period_us"
CG_ROOT = "/sys/fs/cgroup"
ENV = "LOKY_MAX_CPU_COUNT"

AFF_WITH_SIZE = ("api", "psutil", "notimpl_psutil")
PROBE_FAILS = ("zero", "raises", "cached_fail")
EXC_TYPES = {
    "OSError": OSError,
    "FileNotFoundError": FileNotFoundError,
    "ValueError": ValueError,
    "RuntimeError": RuntimeError,
    "IndexError": IndexError,
    "PermissionError": PermissionError,
}

try:  # the interpreter's own Windows cap (61); loky lowers it by one before 3.10
    from concurrent.futures.process import _MAX_WINDOWS_WORKERS as WIN_CAP
except Exception:  # pragma: no cover
    WIN_CAP = 61
if sys.version_info < (3, 10):  # pragma: no cover
    WIN_CAP -= 1


# --------------------------------------------------------------------------
# reference model (from the statement)
# --------------------------------------------------------------------------
def ceil_div(q, p):
    return -((-q) // p)


def user_limits(cfg):
    """The user-imposed limits that are *applicable* in cfg, by name."""
    lim = {}
    aff = cfg["aff"]
    if aff["mode"] in AFF_WITH_SIZE:
        lim["affinity"] = aff["n"]
    cg = cfg["cg"]
    if cg["layout"] in ("v2quota", "v1", "v1neg"):
        q, p = cg["quota"], cg["period"]
        if q is not None and q > 0 and p is not None and p > 0:  # "when a positive quota is set"
            lim["cgroup"] = ceil_div(q, p)
    if cfg["override"] is not None:
        lim["override"] = cfg["override"]
    return lim


def probe_value(probe):
    """Detected number of physical cores, or None when detection fails."""
    k = probe["kind"]
    if k in ("ok", "cached_ok", "zero"):
        n = probe["n"]
        return n if (n is not None and n >= 1) else None
    return None


def reference(cfg, only_physical=None, os_n=None):
    """Expected value of ONE call, and through which clause of the statement.

    os_n: the OS count to use (default: cfg['os'], None -> 1, assumption A1).
    """
    if only_physical is None:
        only_physical = cfg["only_physical"]
    if os_n is None:
        os_n = cfg["os"] if cfg["os"] else 1
    lim = user_limits(cfg)
    lowest = min([os_n] + list(lim.values()))
    logical = max(1, lowest)
    user = min(lim.values()) if lim else None
    user_below = user is not None and user < os_n
    if user_below:
        binding = "floor" if user < 1 else min(sorted(lim), key=lambda k: lim[k])
    else:
        binding = "os"
    if not only_physical:
        path, value = "logical", logical
    elif user_below:
        path, value = "user", logical
    else:
        pv = probe_value(cfg["probe"])
        if pv is not None:
            path, value = "physical", pv
        else:
            path, value = "fallback", logical
    return {
        "value": value,
        "path": path,
        "logical": logical,
        "user_limit": user,
        "os_n": os_n,
        "binding": binding,
        "limits": lim,
    }


PRIME_AFF = {"mode": "api", "n": 4}
PRIME_CG = {"layout": "absent", "quota": None, "period": None}


def priming_cfg(cfg):
    """An unconstrained 4-CPU machine with cfg's probe: one call with
    only_physical_cores=True on it makes the probe outcome 'already seen'."""
    return {
        "os": 4,
        "aff": PRIME_AFF,
        "cg": PRIME_CG,
        "override": None,
        "probe": cfg["probe"],
        "only_physical": True,
        "platform": cfg.get("platform", "linux"),
    }


def scenario(cfg):
    """The sequence of calls made for cfg (no cache reset in between)."""
    k = 3 if cfg["only_physical"] else 2
    calls = [cfg] * k
    if cfg["probe"]["kind"].startswith("cached"):
        calls = [priming_cfg(cfg)] + calls
    return calls


def expected_for(cfg):
    """List of acceptable expectations (usually one). Each is
    {'values': [...], 'paths': [...], 'warn': None|1, 'refs': [...]}.
    warn=1 : the sequence takes the fallback clause at least once, so exactly
    one 'could not detect' warning must be seen over the whole sequence."""
    calls = scenario(cfg)
    os_variants = [None]
    if cfg.get("platform") == "win32" and cfg["os"] and cfg["os"] > WIN_CAP:
        # statement silent / docstring caps: accept both readings (see C17.py)
        os_variants = [None, WIN_CAP]
    out = []
    for osv in os_variants:
        refs = []
        for c in calls:
            if osv is not None and c is not cfg:
                refs.append(reference(c))
            else:
                refs.append(reference(c, os_n=osv))
        out.append(
            {
                "values": [r["value"] for r in refs],
                "paths": [r["path"] for r in refs],
                "warn": 1 if any(r["path"] == "fallback" for r in refs) else None,
                "refs": refs,
            }
        )
    return out


def nontrivial(cfg, ref):
    """A limit other than the OS count was binding, or the physical-core path
    (probe consulted: 'physical' or 'fallback') was taken."""
    return ref["binding"] != "os" or ref["path"] in ("physical", "fallback")


def cfg_key(cfg):
    return json.dumps(cfg, sort_keys=True)


# --------------------------------------------------------------------------
# substitution of the inputs of the real function
# --------------------------------------------------------------------------
def cgroup_files(cg):
    lay = cg["layout"]
    if lay == "absent":
        return {}
    if lay == "v2max":
        return {V2_MAX: "max %d\n" % (cg["period"] or 100000)}
    if lay == "v2quota":
        return {V2_MAX: "%d %d\n" % (cg["quota"], cg["period"])}
    if lay in ("v1", "v1neg"):
        return {V1_QUOTA: "%d\n" % cg["quota"], V1_PERIOD: "%d\n" % cg["period"]}
    raise ValueError(lay)


def _cg_path(p):
    if type(p) is not str:
        if isinstance(p, int):
            return None
        try:
            p = os.fspath(p)
        except TypeError:
            return None
        if isinstance(p, bytes):
            p = p.decode("utf-8", "surrogateescape")
    if p.startswith(CG_ROOT) and (len(p) == len(CG_ROOT) or p[len(CG_ROOT)] == "/"):
        return os.path.normpath(p)
    return None


class ProbeReached(Exception):
    pass


class _NoSubprocess:
    """Stands in for the `subprocess` global of loky.backend.context: the real
    lscpu / powershell / sysctl must never be reached under substitution."""

    def __init__(self, sub):
        self._sub = sub

    def run(self, *a, **k):
        self._sub.real_probe_reached += 1
        raise ProbeReached("real subprocess probe reached under substitution: %r" % (a,))

    def __getattr__(self, name):
        import subprocess

        return getattr(subprocess, name)


class Substitution:
    PROBES = ("_count_physical_cores_linux", "_count_physical_cores_win32", "_count_physical_cores_darwin")

    def __init__(self, ctx):
        self.ctx = ctx
        self.installed = False
        self.files = {}
        self.os_n = 1
        self.aff_n = 1
        self.aff_mode = "api"
        self.probe = {"kind": "ok", "n": 1}
        self.probe_calls = 0
        self.real_probe_reached = 0
        self.cg_reads = 0
        self._sets = {}
        self._lists = {}
        self._cur = None
        sub = self

        class _Proc:
            def cpu_affinity(self_inner, *a):
                n = sub.aff_n
                r = sub._lists.get(n)
                if r is None:
                    r = sub._lists[n] = list(range(n))
                return list(r)

        class _ProcNoAttr:
            pass

        self._psutil_ok = types.ModuleType("psutil")
        self._psutil_ok.Process = _Proc
        self._psutil_noattr = types.ModuleType("psutil")
        self._psutil_noattr.Process = _ProcNoAttr

    # ---- what must exist in the module for the substitution to be meaningful
    def missing_patch_points(self):
        miss = [n for n in ("cpu_count", "physical_cores_cache", "_count_physical_cores_linux") if not hasattr(self.ctx, n)]
        return miss

    # ---- fakes
    def _f_cpu_count(self):
        return self.os_n

    def _f_affinity(self, pid=0):
        if self.aff_mode == "notimpl_psutil":
            raise NotImplementedError("sched_getaffinity")
        n = self.aff_n
        s = self._sets.get(n)
        if s is None:
            s = self._sets[n] = frozenset(range(n))
        return set(s) if n <= 64 else s

    def _f_exists(self, p):
        cp = _cg_path(p)
        if cp is None:
            return self._real_exists(p)
        if cp in self.files:
            return True
        pre = cp + "/"
        return any(f.startswith(pre) for f in self.files)

    def _f_isfile(self, p):
        cp = _cg_path(p)
        if cp is None:
            return self._real_isfile(p)
        return cp in self.files

    def _f_open(self, file, *a, **k):
        cp = _cg_path(file)
        if cp is None:
            return self._real_open(file, *a, **k)
        mode = a[0] if a else k.get("mode", "r")
        if cp in self.files and "w" not in mode and "a" not in mode and "+" not in mode:
            self.cg_reads += 1
            if "b" in mode:
                return io.BytesIO(self.files[cp].encode())
            return io.StringIO(self.files[cp])
        raise FileNotFoundError(2, "No such file or directory", cp)

    def _f_probe(self, *a, **k):
        self.probe_calls += 1
        kind = self.probe["kind"]
        if kind in ("raises", "cached_fail"):
            raise EXC_TYPES.get(self.probe.get("exc") or "OSError", OSError)("substituted probe failure")
        return self.probe["n"]

    # ---- install / restore
    def install(self):
        assert not self.installed
        c = self.ctx
        self._saved_os = {n: getattr(os, n) for n in ("cpu_count", "sched_getaffinity", "process_cpu_count") if hasattr(os, n)}
        self._real_exists = os.path.exists
        self._real_isfile = os.path.isfile
        self._real_open = builtins.open
        self._real_io_open = io.open
        self._saved_env = os.environ.get(ENV)
        self._saved_platform = sys.platform
        self._had_psutil = "psutil" in sys.modules
        self._saved_psutil = sys.modules.get("psutil")
        self._saved_probes = {n: getattr(c, n) for n in self.PROBES if hasattr(c, n)}
        self._saved_cache = getattr(c, "physical_cores_cache", None)
        self._saved_subprocess = getattr(c, "subprocess", None)
        self._saved_stderr = sys.stderr
        os.cpu_count = self._f_cpu_count
        if "process_cpu_count" in self._saved_os:
            os.process_cpu_count = self._f_cpu_count
        os.path.exists = self._f_exists
        os.path.isfile = self._f_isfile
        builtins.open = self._f_open
        io.open = self._f_open
        for n in self._saved_probes:
            setattr(c, n, self._f_probe)
        if self._saved_subprocess is not None:
            c.subprocess = _NoSubprocess(self)
        self.stderr_capture = io.StringIO()
        sys.stderr = self.stderr_capture  # the fallback path prints a traceback
        self.installed = True

    def restore(self):
        if not self.installed:
            return
        c = self.ctx
        sys.stderr = self._saved_stderr
        for n in ("cpu_count", "sched_getaffinity", "process_cpu_count"):
            if n in self._saved_os:
                setattr(os, n, self._saved_os[n])
            elif hasattr(os, n):
                delattr(os, n)
        os.path.exists = self._real_exists
        os.path.isfile = self._real_isfile
        builtins.open = self._real_open
        io.open = self._real_io_open
        if self._saved_env is None:
            os.environ.pop(ENV, None)
        else:
            os.environ[ENV] = self._saved_env
        sys.platform = self._saved_platform
        if self._had_psutil:
            sys.modules["psutil"] = self._saved_psutil
        else:
            sys.modules.pop("psutil", None)
        for n, f in self._saved_probes.items():
            setattr(c, n, f)
        if hasattr(c, "physical_cores_cache"):
            c.physical_cores_cache = self._saved_cache
        if self._saved_subprocess is not None:
            c.subprocess = self._saved_subprocess
        self.installed = False
        self._cur = None

    def __enter__(self):
        self.install()
        return self

    def __exit__(self, *exc):
        self.restore()
        return False

    def reset_cache(self):
        self.ctx.physical_cores_cache = None

    def set_inputs(self, cfg):
        if cfg is self._cur:
            return
        self._cur = cfg
        self.os_n = cfg["os"]
        aff = cfg["aff"]
        mode = self.aff_mode = aff["mode"]
        self.aff_n = aff["n"] if aff["n"] is not None else 1
        if mode in ("api", "notimpl_psutil"):
            os.sched_getaffinity = self._f_affinity
        elif hasattr(os, "sched_getaffinity"):
            del os.sched_getaffinity
        if mode == "none":
            sys.modules["psutil"] = None  # `import psutil` -> ImportError
        elif mode == "psutil_noattr":
            sys.modules["psutil"] = self._psutil_noattr
        else:
            sys.modules["psutil"] = self._psutil_ok
        self.files = cgroup_files(cfg["cg"])
        if cfg["override"] is None:
            os.environ.pop(ENV, None)
        else:
            os.environ[ENV] = str(cfg["override"])
        sys.platform = cfg.get("platform", "linux")
        self.probe = cfg["probe"]


def _is_affinity_warning(w):
    s = str(w.message)
    return "affinity" in s and "physical" not in s


def run_scenario(sub, cfg):
    """Run the real cpu_count over scenario(cfg). Returns observation dict."""
    ctx = sub.ctx
    calls = scenario(cfg)
    got = []
    exc = None
    sub.reset_cache()
    p0 = sub.probe_calls
    with warnings.catch_warnings(record=True) as rec:
        warnings.simplefilter("always")
        for c in calls:
            sub.set_inputs(c)
            try:
                got.append(ctx.cpu_count(only_physical_cores=c["only_physical"]))
            except Exception as e:  # any exception is a violation
                import traceback

                exc = "%s: %s @ %s" % (
                    type(e).__name__,
                    e,
                    " <- ".join("%s:%d" % (os.path.basename(f.filename), f.lineno) for f in traceback.extract_tb(e.__traceback__)[-3:][::-1]),
                )
                break
    n_aff = sum(1 for w in rec if _is_affinity_warning(w))
    return {
        "got": got,
        "exception": exc,
        "warnings": len(rec) - n_aff,
        "affinity_warnings": n_aff,
        "probe_calls": sub.probe_calls - p0,
        "warning_text": [str(w.message)[:160] for w in rec if not _is_affinity_warning(w)][:3],
    }


def judge(cfg, obs, expectations=None):
    """None if obs satisfies one acceptable expectation, else (clause, text)."""
    exps = expectations or expected_for(cfg)
    if obs["exception"] is not None:
        return "exception", "cpu_count raised %s" % obs["exception"]
    first = None
    for e in exps:
        if obs["got"] != e["values"] or any(isinstance(g, bool) for g in obs["got"]):
            first = first or ("value_mismatch", "returned %r, expected %r (clauses %r)" % (obs["got"], e["values"], e["paths"]))
            continue
        if e["warn"] is not None and obs["warnings"] != e["warn"]:
            first = first or (
                "warning_count",
                "%d detection-failure warning(s) over %d call(s), expected exactly %d" % (obs["warnings"], len(obs["got"]), e["warn"]),
            )
            continue
        return None
    return first


# --------------------------------------------------------------------------
# configuration spaces
# --------------------------------------------------------------------------
G_OS = [None, 1, 2, 3, 8, 64]
G_AFF = [
    {"mode": "api", "n": 1},
    {"mode": "api", "n": 2},
    {"mode": "api", "n": 8},
    {"mode": "api", "n": 64},
    {"mode": "none", "n": None},  # no sched_getaffinity, no psutil: affinity not applicable
    {"mode": "psutil", "n": 2},  # no sched_getaffinity -> psutil.Process().cpu_affinity()
    {"mode": "notimpl_psutil", "n": 8},  # sched_getaffinity raises NotImplementedError -> psutil
    {"mode": "psutil_noattr", "n": None},  # psutil without cpu_affinity (macOS): not applicable
]
G_RATIOS = [(150000, 100000), (200000, 100000), (50000, 100000), (10**12, 100000), (800001, 100000)]
G_CG = (
    [
        {"layout": "absent", "quota": None, "period": None},
        {"layout": "v2max", "quota": None, "period": 100000},
        {"layout": "v1neg", "quota": -1, "period": 100000},
    ]
    + [{"layout": "v2quota", "quota": q, "period": p} for q, p in G_RATIOS]
    + [{"layout": "v1", "quota": q, "period": p} for q, p in G_RATIOS]
)
G_OVR = [None, 0, -3, 1, 5, 10**6]
G_PROBE = [
    {"kind": "ok", "n": 4, "exc": None},
    {"kind": "ok", "n": 1, "exc": None},
    {"kind": "ok", "n": 128, "exc": None},
    {"kind": "zero", "n": 0, "exc": None},
    {"kind": "raises", "n": None, "exc": "OSError"},
    {"kind": "cached_ok", "n": 4, "exc": None},
    {"kind": "cached_fail", "n": None, "exc": "FileNotFoundError"},
]
G_OP = [False, True]
GRID_DIMS = (G_OS, G_AFF, G_CG, G_OVR, G_PROBE, G_OP)


def grid_size():
    n = 1
    for d in GRID_DIMS:
        n *= len(d)
    return n


def grid_cfg(i):
    """i-th configuration of the grid (mixed radix, only_physical fastest)."""
    idx = []
    for d in reversed(GRID_DIMS):
        i, r = divmod(i, len(d))
        idx.append(r)
    o, a, c, v, p, f = reversed(idx)
    return {
        "os": G_OS[o],
        "aff": G_AFF[a],
        "cg": G_CG[c],
        "override": G_OVR[v],
        "probe": G_PROBE[p],
        "only_physical": G_OP[f],
        "platform": "linux",
    }


def _near(rng, b, hi):
    r = rng.randint(0, 9)
    if r < 2:
        v = b
    elif r < 4:
        v = b - 1
    elif r < 6:
        v = b + 1
    elif r < 7:
        v = 2 * b
    elif r < 8:
        v = rng.randint(1, 8)
    else:
        v = rng.randint(1, hi)
    return max(1, min(hi, v))


def random_cfg(rng):
    """Arbitrary-integer configuration; rng is random.Random or hypothesis'
    st.randoms() object. Values cluster around a common base so that the
    comparisons between limits are decided by +-1."""
    b = rng.choice([1, 2, 3, 4, 7, 16, 60, 61, 62, 255, rng.randint(1, 4096)])
    osc = None if rng.randint(0, 11) == 0 else _near(rng, b, 8192)
    m = rng.choice(["api", "api", "api", "api", "psutil", "notimpl_psutil", "none", "psutil_noattr"])
    aff = {"mode": m, "n": _near(rng, b, 8192) if m in AFF_WITH_SIZE else None}
    lay = rng.choice(["absent", "v2max", "v2quota", "v2quota", "v1", "v1", "v1neg"])
    if lay == "absent":
        cg = {"layout": lay, "quota": None, "period": None}
    else:
        period = rng.choice([100000, 100000, 1000, 50000, 1000000, rng.randint(1000, 1000000)])
        if lay == "v2max":
            q = None
        elif lay == "v1neg":
            q = rng.choice([-1, -1, -1, 0, -rng.randint(1, 10**6)])
        else:
            k = _near(rng, b, 8192)
            t = rng.randint(0, 5)
            if t == 0:
                q = k * period  # exact
            elif t == 1:
                q = k * period + 1  # just above an integer
            elif t == 2:
                q = max(1, k * period - 1)  # just below
            elif t == 3:
                q = max(1, (k - 1) * period + period // 2)
            elif t == 4:
                q = rng.randint(1, period)  # < 1 CPU
            else:
                q = rng.randint(1, 10**9)
        cg = {"layout": lay, "quota": q, "period": period}
    t = rng.randint(0, 9)
    if t < 3:
        ovr = None
    elif t < 7:
        ovr = _near(rng, b, 10**7)
    elif t < 8:
        ovr = rng.choice([0, -1, -3, -rng.randint(1, 10**6)])
    else:
        ovr = rng.randint(-10, 10**7)
    kind = rng.choice(["ok", "ok", "ok", "zero", "raises", "cached_ok", "cached_fail"])
    if kind in ("ok", "cached_ok"):
        pn = _near(rng, b, 8192)
    elif kind == "zero":
        pn = rng.choice([0, 0, -1, -rng.randint(1, 100)])
    else:
        pn = None
    probe = {"kind": kind, "n": pn, "exc": rng.choice(sorted(EXC_TYPES)) if kind in ("raises", "cached_fail") else None}
    return {
        "os": osc,
        "aff": aff,
        "cg": cg,
        "override": ovr,
        "probe": probe,
        "only_physical": rng.randint(0, 2) > 0,
        "platform": rng.choice(["linux", "linux", "linux", "linux", "win32", "darwin"]),
    }


def load_ctx():
    from .. import common

    common.ensure_repo_on_path()
    import loky.backend.context as ctx

    return ctx


def main(argv):
    with open(argv[1]) as f:
        cfg = json.load(f)
    ctx = load_ctx()
    sub = Substitution(ctx)
    with sub:
        obs = run_scenario(sub, cfg)
    bad = judge(cfg, obs)
    print("config   :", json.dumps(cfg, sort_keys=True))
    print("calls    :", len(scenario(cfg)))
    print("observed :", json.dumps(obs, sort_keys=True))
    print("expected :", json.dumps([{k: e[k] for k in ("values", "paths", "warn")} for e in expected_for(cfg)]))
    print("verdict  :", "HELD" if bad is None else "VIOLATION %s: %s" % bad)
    return 0 if bad is None else 1


if __name__ == "__main__":
    sys.exit(main(sys.argv))
