"""Engine for C15 (serialisation customisation is scoped and faithful).

Four parts, each executed inside a dedicated child interpreter (so the
process-wide pickling registries start pristine and loky is imported from the
tree under test); the parent side (harness/checks/C15.py) only generates the
scenarios, runs the children and aggregates what they report.

  A  non-interference, in-process: a generated ORDER of operations (loky
     ``dumps``/``dump`` with ``reducers=``, pickler objects built from
     ``get_loky_pickler()`` and kept alive across later operations,
     ``set_loky_pickler``, instance-level ``register``, the documented global
     ``reduction.register`` done by the harness itself, real executors with
     job/result reducers).  After EVERY operation the process-wide registries
     are compared with the snapshot taken before the sequence and fresh
     picklers (loky, pickle, cloudpickle, multiprocessing) are probed.
  B  scoping through real executors: several executors with different reducer
     maps alive in one parent, generated creation/use/shutdown orders.
  C  fidelity of loky's built-in reducers: generated graphs of bound methods,
     class methods, method descriptors and partials; the round-tripped object
     is compared with the original on generated calls (differential oracle).
  D  pickler identity: the pickler a worker uses for a task's result must be
     the one that was selected in the parent when the task was submitted.

Custom reducers are MARKER-STAMPING: reducer_k rebuilds ``Payload(value,
marks + (k,))``, so any influence of reducer k on any pickling is visible in
the reconstructed object.  Reducers, Payload and the task bodies are
module-level objects of this importable module: workers import it by name
(``harness.inproc.reduction_monitor``; /verif is on the PYTHONPATH of every
child) and reducer maps compare equal across ``get_reusable_executor`` calls.

Everything is derived from ``random.Random`` seeded with strings built from
VERIF_SEED, and every scenario is plain JSON: a violation can be replayed with

    PYTHONPATH=<repo>:/verif python -m harness.inproc.reduction_monitor <scenario.json>
"""
import ast
import collections
import collections.abc
import functools
import io
import json
import os
import random
import sys
import time
import traceback
import types

MODNAME = "harness.inproc.reduction_monitor"
RESULT_TAG = "@@C15-RESULT@@"
TASK_TIMEOUT = 40.0

# --------------------------------------------------------------------------- #
# harness types, marker-stamping reducers, task bodies (all module level)


class Payload:
    """value: data; marks: markers stamped by reducers on the way here;
    seen: the marks the worker saw on its ARGUMENT (filled by task_echo)."""

    def __init__(self, value, marks=(), seen=None):
        self.value = value
        self.marks = tuple(marks)
        self.seen = None if seen is None else tuple(seen)

    def _lv_state(self):
        return ("Payload", self.value, self.marks, self.seen)

    def __eq__(self, other):
        return type(other) is type(self) and other._lv_state() == self._lv_state()

    __hash__ = None

    def __repr__(self):
        return "Payload(%r, marks=%r, seen=%r)" % (self.value, self.marks, self.seen)


class GPayload(Payload):
    """Only ever used with the DOCUMENTED global reduction.register()."""


def _rebuild_payload(value, marks, seen):
    return Payload(value, marks, seen)


def _rebuild_gpayload(value, marks, seen):
    return GPayload(value, marks, seen)


def reducer_1(p):
    return _rebuild_payload, (p.value, tuple(p.marks) + (1,), p.seen)


def reducer_2(p):
    return _rebuild_payload, (p.value, tuple(p.marks) + (2,), p.seen)


def reducer_3(p):
    return _rebuild_payload, (p.value, tuple(p.marks) + (3,), p.seen)


def reducer_4(p):
    return _rebuild_payload, (p.value, tuple(p.marks) + (4,), p.seen)


def reducer_5(p):
    return _rebuild_payload, (p.value, tuple(p.marks) + (5,), p.seen)


def reducer_6(p):
    return _rebuild_payload, (p.value, tuple(p.marks) + (6,), p.seen)


def reducer_7(p):
    return _rebuild_payload, (p.value, tuple(p.marks) + (7,), p.seen)


def reducer_8(p):
    return _rebuild_payload, (p.value, tuple(p.marks) + (8,), p.seen)


def reducer_g9(p):
    return _rebuild_gpayload, (p.value, tuple(p.marks) + (9,), p.seen)


REDUCERS = {1: reducer_1, 2: reducer_2, 3: reducer_3, 4: reducer_4, 5: reducer_5, 6: reducer_6, 7: reducer_7, 8: reducer_8}
N_MARKERS = len(REDUCERS)


EMPTY = 0  # result marker standing for an explicit, empty mapping (result_reducers={}): results get NO user reducer


def rmap(k):
    """A NEW dict each time (reusable-executor kwargs must compare equal by value)."""
    if k == EMPTY:
        return {}
    return None if k is None else {Payload: REDUCERS[k]}


def task_echo(p, delay=0.0):
    """Result is created FRESH in the worker (no marks) and records the marks
    the worker saw on its argument."""
    if delay:
        time.sleep(delay)
    return Payload(p.value, (), tuple(p.marks))


def task_probe(delay=0.0):
    if delay:
        time.sleep(delay)
    from loky.backend.reduction import get_loky_pickler_name

    return get_loky_pickler_name()


def task_witness(delay=0.0):
    """Returns a local function: only a cloudpickle-based result pickler can
    send it back; a plain-pickle one fails.  The behaviour of the RESULT
    pickling itself therefore tells which pickler the worker used."""
    if delay:
        time.sleep(delay)
    from loky.backend.reduction import get_loky_pickler_name

    name = get_loky_pickler_name()

    def witness():
        return name

    return witness


# --------------------------------------------------------------------------- #
# subjects of the fidelity part (module level: plain pickle can reach them)


class Acc:
    def __init__(self, base=0, items=(), tag="a"):
        self.base = base
        self.items = list(items)
        self.tag = tag

    def _lv_state(self):
        return (type(self).__name__, self.base, list(self.items), self.tag)

    def __eq__(self, other):
        return hasattr(type(other), "_lv_state") and type(other).__name__ == type(self).__name__ and other._lv_state() == self._lv_state()

    __hash__ = None

    def __repr__(self):
        return "%s(%r, %r, %r)" % (type(self).__name__, self.base, self.items, self.tag)

    def add(self, x, y=0):
        self.items.append(x)
        self.base = self.base + y
        return self.base + x

    def scale(self, k, *, offset=0):
        return [i * k + offset for i in self.items]

    def check(self, x):
        if not isinstance(x, int):
            raise TypeError("int wanted")
        if x < 0:
            raise ValueError(x)
        return x + self.base

    def info(self, *a, **k):
        return (self.tag, self.base, a, sorted(k.items()))

    @classmethod
    def make(cls, *a, **k):
        return (cls.__name__, a, sorted(k.items()))

    @classmethod
    def build(cls, base, tag="m"):
        return cls(base, (), tag)


class Vec(Acc):
    def add(self, x, y=0):
        self.items.insert(0, x)
        return ("vec", x, y, len(self.items))

    @classmethod
    def make(cls, *a, **k):
        return ("Vec.make", cls.__name__, len(a), sorted(k))


def fn_collect(*a, **k):
    return (a, sorted(k.items()))


def fn_kw(a, b=2, *, c=3):
    return a * 100 + b * 10 + c


def fn_apply(f, *a, **k):
    return f(*a, **k)


def fn_raise(kind="v", *a, **k):
    raise {"v": ValueError, "k": KeyError, "z": ZeroDivisionError}.get(kind, RuntimeError)(kind)


MODULE_FUNCS = {"fn_collect": fn_collect, "fn_kw": fn_kw, "fn_apply": fn_apply, "fn_raise": fn_raise}
MODULE_CLASSES = {"Acc": Acc, "Vec": Vec}
BUILTIN_CLASSES = {"int": int, "dict": dict, "list": list, "str": str, "tuple": tuple}

DYN_NS = "c15_dyn_ns"  # never in sys.modules: nothing built from DYN_SRC is importable
DYN_SRC = '''
class DynBox:
    def __init__(self, base=0, items=(), tag="d"):
        self.base = base
        self.items = list(items)
        self.tag = tag
    def _lv_state(self):
        return (type(self).__name__, self.base, list(self.items), self.tag)
    def __eq__(self, other):
        return hasattr(type(other), "_lv_state") and other._lv_state() == self._lv_state()
    __hash__ = None
    def add(self, x, y=0):
        self.items.append((x, y))
        return (self.tag, self.base, x, y)
    def info(self, *a, **k):
        return (self.tag, self.base, a, sorted(k.items()))
    @classmethod
    def make(cls, *a, **k):
        return (cls.__name__, a, sorted(k.items()))

def dyn_collect(*a, **k):
    return ("dyn", a, sorted(k.items()))

lam0 = lambda *a, **k: (len(a), sorted(k))
lam1 = lambda x, y=1, **k: (x, y, sorted(k.items()))
lam2 = lambda x: [x, x]
'''
DYN_FUNCS = ["dyn_collect", "lam0", "lam1", "lam2"]

# (owner, name) of method descriptors / slot wrappers; self type; argument kinds
DESCRIPTORS = [
    ("list", "append", ["any"]),
    ("list", "extend", ["list"]),
    ("list", "pop", []),
    ("list", "__len__", []),
    ("int", "__add__", ["int"]),
    ("int", "__mul__", ["int"]),
    ("int", "bit_length", []),
    ("str", "upper", []),
    ("str", "join", ["strlist"]),
    ("str", "split", []),
    ("str", "__len__", []),
    ("dict", "get", ["key", "any"]),
    ("dict", "setdefault", ["key", "any"]),
    ("tuple", "count", ["int"]),
    ("set", "add", ["int"]),
    ("float", "__add__", ["float"]),
    ("bytes", "decode", []),
]
BBOUND = [
    ("list", "append", ["any"]),
    ("list", "extend", ["list"]),
    ("list", "pop", []),
    ("list", "count", ["int"]),
    ("str", "upper", []),
    ("str", "join", ["strlist"]),
    ("str", "startswith", ["str"]),
    ("dict", "get", ["key", "any"]),
    ("dict", "setdefault", ["key", "any"]),
    ("dict", "pop", ["key"]),
    ("int", "__add__", ["int"]),
    ("int", "__mul__", ["int"]),
    ("int", "bit_length", []),
    ("set", "add", ["int"]),
    ("tuple", "index", ["int"]),
]
OWNERS = {"list": list, "int": int, "str": str, "dict": dict, "tuple": tuple, "set": set, "float": float, "bytes": bytes}
KW_NAMES = ["y", "offset", "b", "c", "tag", "k", "base", "kind"]


# --------------------------------------------------------------------------- #
# small helpers


def _loky():
    from loky.backend import reduction as R

    return R


def assert_repo(repo):
    import loky

    got = os.path.realpath(os.path.dirname(loky.__file__))
    want = os.path.realpath(os.path.join(repo, "loky"))
    if got != want:
        raise RuntimeError("loky imported from %s, expected %s" % (got, want))


def preimport():
    """Import up front everything loky imports lazily, so that registrations
    done by module imports (copyreg.pickle at import time, multiprocessing's
    ForkingPickler.register) are part of the baseline snapshot."""
    import concurrent.futures  # noqa: F401
    import multiprocessing.connection  # noqa: F401
    import multiprocessing.queues  # noqa: F401
    import multiprocessing.reduction  # noqa: F401
    import multiprocessing.resource_tracker  # noqa: F401
    import multiprocessing.synchronize  # noqa: F401
    import multiprocessing.util  # noqa: F401
    import pickle  # noqa: F401
    import re  # noqa: F401
    import struct  # noqa: F401
    import tempfile  # noqa: F401
    import warnings  # noqa: F401

    import cloudpickle  # noqa: F401
    import loky  # noqa: F401
    import loky.backend.context  # noqa: F401
    import loky.backend.queues  # noqa: F401
    import loky.backend.reduction  # noqa: F401
    import loky.backend.resource_tracker  # noqa: F401
    import loky.backend.spawn  # noqa: F401
    import loky.backend.synchronize  # noqa: F401
    import loky.backend.utils  # noqa: F401
    import loky.cloudpickle_wrapper  # noqa: F401
    import loky.process_executor  # noqa: F401
    import loky.reusable_executor  # noqa: F401

    for m in ("loky.backend.popen_loky_posix", "loky.backend.fork_exec", "loky.backend.process"):
        try:
            __import__(m)
        except Exception:
            pass


def _is_harness_obj(x):
    return any(x is h for h in (Payload, GPayload, reducer_g9) + tuple(REDUCERS.values()))


def _keyrepr(k):
    try:
        return repr(k)[:120]
    except Exception:
        return "<unrepr-able %s>" % type(k).__name__


def resolve_name(name, env_pickler):
    """Model of the statement: the pickler selected by set_loky_pickler(name)
    given the LOKY_PICKLER value the interpreter was started with."""
    if name is None:
        name = env_pickler
    if name in (None, ""):
        return "cloudpickle"
    return name


def classify_exc(e):
    n = type(e).__name__
    if isinstance(e, TimeoutError) or n in ("TimeoutError", "BrokenProcessPool", "TerminatedWorkerError", "ShutdownExecutorError"):
        return "inconclusive"
    return "violation"


# --------------------------------------------------------------------------- #
# registry monitor

_MISSING = ("<absent>",)


def _freeze(obj):
    if isinstance(obj, collections.abc.Mapping):
        return ("map", dict(obj))
    return ("obj", obj)


def _live_registries():
    import copyreg
    import multiprocessing.reduction as mpr
    import pickle

    import cloudpickle

    R = _loky()
    regs = collections.OrderedDict()
    regs["copyreg.dispatch_table"] = copyreg.dispatch_table
    regs["loky.backend.reduction._dispatch_table"] = R._dispatch_table
    seen = []
    for cname in ("CloudPickler", "Pickler"):
        c = getattr(cloudpickle, cname, None)
        if c is None or any(c is s for s in seen):
            continue
        seen.append(c)
        for attr in ("dispatch_table", "_dispatch_table", "dispatch"):
            v = getattr(c, attr, _MISSING)
            if v is not _MISSING:
                regs["cloudpickle.%s.%s" % (cname, attr)] = v
    regs["pickle.Pickler.dispatch_table (class attribute)"] = pickle.Pickler.__dict__.get("dispatch_table", _MISSING)
    regs["pickle._Pickler.dispatch_table (class attribute)"] = pickle._Pickler.__dict__.get("dispatch_table", _MISSING)
    regs["pickle._Pickler.dispatch"] = pickle._Pickler.dispatch
    regs["multiprocessing.reduction.ForkingPickler._extra_reducers"] = mpr.ForkingPickler._extra_reducers
    regs["copyreg._extension_registry"] = copyreg._extension_registry
    return regs


class RegistryMonitor:
    """Snapshot before, compare after every operation.  After a reported
    difference the baseline is moved so that each mutation is attributed once,
    to the operation after which it was first seen."""

    def __init__(self):
        self.classes = []  # (backend name, serial, class) every loky pickler class ever selected
        self.note_class()
        self.base = self._snap()
        self.compared = 0

    def note_class(self):
        R = _loky()
        cls, name = R.get_loky_pickler(), R.get_loky_pickler_name()
        if cls is not None and not any(c is cls for _, _, c in self.classes):
            self.classes.append((name, len(self.classes), cls))

    def _snap(self):
        return {name: _freeze(obj) for name, obj in _live_registries().items()}

    def expect(self, registry, key, value):
        """The harness itself is about to do a documented GLOBAL registration."""
        kind, d = self.base[registry]
        d[key] = value

    def compare(self):
        self.note_class()
        new = self._snap()
        changes = []
        lokykeys = set(_loky()._dispatch_table)
        for name, (kind, old) in self.base.items():
            self.compared += 1
            nk, nv = new.get(name, ("obj", _MISSING))
            if kind != nk:
                changes.append({"registry": name, "change": "replaced", "key": "-", "key_kind": "-", "old": _keyrepr(old)[:80], "new": _keyrepr(nv)[:80]})
                continue
            if kind == "obj":
                if old is not nv:
                    changes.append({"registry": name, "change": "replaced", "key": "-", "key_kind": "-", "old": _keyrepr(old), "new": _keyrepr(nv)})
                continue
            for k in list(nv):
                kk = "harness_type" if _is_harness_obj(k) else ("loky_builtin_type" if k in lokykeys else "other")
                if k not in old:
                    changes.append({"registry": name, "change": "added", "key": _keyrepr(k), "key_kind": kk, "old": "-", "new": _keyrepr(nv[k])})
                elif old[k] is not nv[k] and old[k] != nv[k]:
                    changes.append({"registry": name, "change": "changed", "key": _keyrepr(k), "key_kind": kk, "old": _keyrepr(old[k]), "new": _keyrepr(nv[k])})
            for k in old:
                if k not in nv:
                    kk = "harness_type" if _is_harness_obj(k) else ("loky_builtin_type" if k in lokykeys else "other")
                    changes.append({"registry": name, "change": "removed", "key": _keyrepr(k), "key_kind": kk, "old": _keyrepr(old[k]), "new": "-"})
        # the loky pickler classes of every back-end selected so far: no class-level
        # table of their own, and their class-level view is their back-end's
        for backend, serial, cls in self.classes:
            self.compared += 1
            name = "loky CustomizablePickler[%s].dispatch_table (class level)" % backend
            own = cls.__dict__.get("dispatch_table", _MISSING)
            if own is not _MISSING:
                changes.append({"registry": name, "change": "added", "key": "-", "key_kind": "-", "old": "-", "new": _keyrepr(own)})
                continue
            parent = getattr(cls, "_loky_pickler_cls", None)
            if parent is not None:
                a, b = getattr(cls, "dispatch_table", _MISSING), getattr(parent, "dispatch_table", _MISSING)
                if a is not b:
                    changes.append({"registry": name, "change": "replaced", "key": "-", "key_kind": "-", "old": _keyrepr(b), "new": _keyrepr(a)})
        if changes:
            self.base = new
        return changes


def fresh_picklers():
    """(name, callable obj -> reconstructed obj) for picklers that were given
    NO reducers: loky's own entry points, and the other picklers of the process."""
    import pickle
    from multiprocessing.reduction import ForkingPickler

    import cloudpickle

    R = _loky()

    def loky_dumps(o):
        return R.loads(R.dumps(o))

    def loky_dump_file(o):
        b = io.BytesIO()
        R.dump(o, b)
        return R.loads(b.getvalue())

    def loky_class(o):
        b = io.BytesIO()
        R.get_loky_pickler()(b).dump(o)
        return R.loads(b.getvalue())

    def loky_dumps_empty_map(o):
        return R.loads(R.dumps(o, reducers={}))

    return [
        ("loky.dumps", loky_dumps),
        ("loky.dump", loky_dump_file),
        ("loky.get_loky_pickler()()", loky_class),
        ("loky.dumps(reducers={})", loky_dumps_empty_map),
        ("pickle.dumps", lambda o: pickle.loads(pickle.dumps(o))),
        ("cloudpickle.dumps", lambda o: pickle.loads(cloudpickle.dumps(o))),
        ("multiprocessing ForkingPickler.dumps", lambda o: pickle.loads(ForkingPickler.dumps(o))),
    ]


# --------------------------------------------------------------------------- #
# result collector shared by the parts


class Report:
    def __init__(self, job):
        self.job = job
        self.part = job["part"][:1]
        self.violations = []
        self.inconclusive = []
        self.nontrivial = set()
        self.counters = collections.Counter()
        self.samples = []
        self.evaluations = 0
        self.once = set()

    def violation(self, sig, text, scenario=None, once_key=None):
        if once_key is not None:
            if once_key in self.once:
                self.counters["violations_suppressed_same_cause"] += 1
                return
            self.once.add(once_key)
        sig = dict(sig)
        sig["part"] = self.part
        self.violations.append({"sig": sig, "text": text, "scenario": scenario if scenario is not None else self.job})

    def inconc(self, reason):
        self.inconclusive.append(reason)

    def registry_changes(self, mon, op_label, where):
        by = collections.OrderedDict()
        for ch in mon.compare():
            by.setdefault(ch["registry"], []).append(ch)
        for reg, chs in by.items():
            kinds = [c["key_kind"] for c in chs]
            kk = "harness_type" if "harness_type" in kinds else kinds[0]
            lines = ["key %s %s (was %s, now %s)" % (c["key"], c["change"], c["old"], c["new"]) for c in chs]
            self.violation(
                {"clause": "registry_mutated", "registry": reg, "op": op_label, "change": chs[0]["change"] if len({c["change"] for c in chs}) == 1 else "several", "key_kind": kk},
                "process-wide registry %s differs from the snapshot taken before the sequence; first seen after %s:\n  %s%s"
                % (reg, where, "\n  ".join(lines[:8]), "\n  ... %d more keys" % (len(lines) - 8) if len(lines) > 8 else ""),
            )
        self.counters["registry_snapshots_compared"] = mon.compared

    def out(self):
        return {
            "part": self.part,
            "evaluations": self.evaluations,
            "violations": self.violations[:40],
            "n_violations": len(self.violations),
            "inconclusive": self.inconclusive,
            "nontrivial": sorted(self.nontrivial),
            "counters": dict(self.counters),
            "samples": self.samples[:3],
        }


def judge_echo(J, Rk, seen, marks):
    """J / Rk: the executor's job / result marker (None = not given).
    seen: marks the worker saw on the argument; marks: marks on the result.
    Returns [(clause, text)]."""
    out = []
    own = {k for k in (J, Rk) if k is not None and k != EMPTY}
    exp_arg = (J,) if J is not None else ()
    exp_res = () if Rk == EMPTY else (Rk,) if Rk is not None else exp_arg
    seen = tuple(seen) if seen is not None else None
    marks = tuple(marks)
    if seen != exp_arg:
        if seen is not None and any(m not in own for m in seen):
            c = "reducer_leaked_to_other_executor"
        elif J is not None and (seen is None or J not in seen):
            c = "job_reducer_not_applied"
        elif J is None and Rk is not None and seen and Rk in seen:
            c = "result_reducer_applied_to_job"
        else:
            c = "job_pickling_wrong"
        out.append((c, "task ARGUMENT arrived with marks %r, expected %r" % (seen, exp_arg)))
    if marks != exp_res:
        if any(m not in own for m in marks):
            c = "reducer_leaked_to_other_executor"
        elif Rk is not None:
            c = "result_reducer_not_overriding"
        elif J is not None:
            c = "result_reducer_not_default"
        else:
            c = "result_pickling_wrong"
        out.append((c, "task RESULT came back with marks %r, expected %r" % (marks, exp_res)))
    return out


def exec_label(J, Rk):
    if J is not None and Rk is not None:
        return "executor_with_job_and_result_reducers"
    if J is not None:
        return "executor_with_job_reducers"
    if Rk is not None:
        return "executor_with_result_reducers"
    return "executor_without_reducers"


def make_executor(kind, J, Rk):
    if kind == "reusable":
        from loky import get_reusable_executor

        return get_reusable_executor(max_workers=1, timeout=20, job_reducers=rmap(J), result_reducers=rmap(Rk))
    from loky import ProcessPoolExecutor

    return ProcessPoolExecutor(max_workers=1, job_reducers=rmap(J), result_reducers=rmap(Rk))


# --------------------------------------------------------------------------- #
# part A


def gen_A(rng, max_exec=2):
    ops = []
    n = rng.randint(10, 18)
    nexec = 0
    psl = set()
    esl = {}
    did_global = False
    names = [None, "", "cloudpickle", "pickle", "pickle", "cloudpickle"]

    def shape():
        s = rng.choice(["E1", "E1", "E2", "E2", "E3", "E4", "E0", "E5"])
        a, b = rng.sample(range(1, N_MARKERS + 1), 2)
        return {"E0": (None, None), "E1": (a, None), "E2": (a, b), "E3": (None, b), "E4": (a, a), "E5": (a, EMPTY)}[s]

    def mk():
        return rng.randint(1, N_MARKERS) if rng.random() < 0.75 else None

    while len(ops) < n:
        c = rng.random()
        if c < 0.15:
            ops.append({"op": "set_pickler", "name": rng.choice(names)})
        elif c < 0.27:
            ops.append({"op": "dumps", "k": mk(), "proto": rng.choice([None, None, 2, 3, 4, 5])})
        elif c < 0.36:
            ops.append({"op": "dump", "k": mk(), "proto": rng.choice([None, None, 2, 4, 5])})
        elif c < 0.50:
            s = rng.randint(0, 2)
            psl.add(s)
            ops.append({"op": "new_pickler", "slot": s, "k": mk(), "proto": rng.choice([None, None, 4, 5])})
        elif c < 0.62 and psl:
            ops.append({"op": "use_pickler", "slot": rng.choice(sorted(psl))})
        elif c < 0.68 and psl:
            ops.append({"op": "pickler_register", "slot": rng.choice(sorted(psl)), "k": rng.randint(1, N_MARKERS)})
        elif c < 0.71 and not did_global:
            did_global = True
            ops.append({"op": "global_register"})
        elif c < 0.88 and nexec < max_exec:
            nexec += 1
            J, Rk = shape()
            kind = "reusable" if rng.random() < 0.25 else "ppe"
            if rng.random() < 0.5:
                ops.append({"op": "executor", "kind": kind, "job": J, "result": Rk})
            else:
                s = len(esl)
                esl[s] = True
                ops.append({"op": "executor_open", "slot": s, "kind": kind, "job": J, "result": Rk})
        elif esl and c >= 0.88:
            live = [s for s, v in esl.items() if v]
            if live:
                s = rng.choice(live)
                if rng.random() < 0.7:
                    ops.append({"op": "executor_use", "slot": s})
                else:
                    esl[s] = False
                    ops.append({"op": "executor_close", "slot": s})
    if nexec == 0:
        J, Rk = shape()
        ops.insert(rng.randint(0, len(ops)), {"op": "executor", "kind": "ppe", "job": J, "result": Rk})
    for s, v in esl.items():
        if v:
            ops.append({"op": "executor_use", "slot": s})
            ops.append({"op": "executor_close", "slot": s})
    return {"part": "A", "ops": ops}


def a_op_label(op, st=None):
    o = op["op"]
    if o in ("dumps", "dump", "new_pickler"):
        return "%s_%s_reducers" % (o, "with" if op.get("k") is not None else "without")
    if o in ("executor", "executor_open"):
        return exec_label(op.get("job"), op.get("result"))
    if o in ("executor_use", "executor_close") and st is not None and op["slot"] in st.execs:
        return exec_label(*st.execs[op["slot"]][1:3]) + ("_use" if o == "executor_use" else "_shutdown")
    if o == "set_pickler":
        return "set_loky_pickler"
    return o


class _AState:
    def __init__(self, rep, mon):
        self.rep = rep
        self.mon = mon
        self.picklers = {}  # slot -> [pickler, buf, expected marker]
        self.execs = {}  # slot -> (executor, J, R)
        self.closed = set()
        self.n = 0
        self.sig = []

    def _payload(self):
        self.n += 1
        return Payload(self.n)

    def _check_marks(self, got, k, what, op_label):
        R = _loky()
        backend = R.get_loky_pickler_name()
        exp = (k,) if k is not None else ()
        if not isinstance(got, Payload):
            self.rep.violation({"clause": "roundtrip_failed", "op": op_label, "backend": backend}, "%s: reconstructed object is %r, not a Payload" % (what, got))
            return
        if got.marks == exp:
            if k is not None:
                self.rep.nontrivial.add("A|%s|%s" % (op_label, backend))
            return
        if any(m != k for m in got.marks):
            clause = "reducer_leaked_to_later_pickler" if k is None else "reducer_leaked_to_other_pickler"
        else:
            clause = "reducer_not_applied"
        self.rep.violation(
            {"clause": clause, "op": op_label, "backend": backend},
            "%s (back-end %s): reconstructed Payload carries marks %r, expected %r" % (what, backend, got.marks, exp),
            once_key=(clause, op_label, backend),
        )

    def apply(self, op):
        R = _loky()
        o = op["op"]
        label = a_op_label(op, self)
        if o == "set_pickler":
            R.set_loky_pickler(op["name"])
            self.mon.note_class()
        elif o == "dumps":
            kw = {} if op["proto"] is None else {"protocol": op["proto"]}
            got = R.loads(R.dumps(self._payload(), reducers=rmap(op["k"]), **kw))
            self._check_marks(got, op["k"], "loky dumps(reducers=%s)" % ("{Payload: reducer_%s}" % op["k"] if op["k"] else None), label)
        elif o == "dump":
            b = io.BytesIO()
            R.dump(self._payload(), b, reducers=rmap(op["k"]), protocol=op["proto"])
            self._check_marks(R.loads(b.getvalue()), op["k"], "loky dump(file, reducers=...)", label)
        elif o == "new_pickler":
            b = io.BytesIO()
            P = R.get_loky_pickler()
            kw = {} if op["proto"] is None else {"protocol": op["proto"]}
            p = P(b, reducers=rmap(op["k"]), **kw)
            self.picklers[op["slot"]] = [p, b, op["k"]]
            self._use_pickler(op["slot"], label)
        elif o == "use_pickler":
            if op["slot"] in self.picklers:
                self._use_pickler(op["slot"], "use_pickler_%s_reducers" % ("with" if self.picklers[op["slot"]][2] is not None else "without"))
        elif o == "pickler_register":
            if op["slot"] in self.picklers:
                ent = self.picklers[op["slot"]]
                ent[0].register(Payload, REDUCERS[op["k"]])
                ent[2] = op["k"]
                self._use_pickler(op["slot"], label)
        elif o == "global_register":
            # documented, deliberately process-wide: the expectation moves with it
            self.mon.expect("loky.backend.reduction._dispatch_table", GPayload, reducer_g9)
            R.register(GPayload, reducer_g9)
        elif o == "executor":
            ex = make_executor(op["kind"], op["job"], op["result"])
            self.rep.counters["executors_created"] += 1
            try:
                self._use_exec(ex, op["job"], op["result"], label)
            finally:
                ex.shutdown(wait=True)
        elif o == "executor_open":
            if op["kind"] == "reusable":
                # a new reusable executor replaces (shuts down) the previous one
                for s, (e, _, _, kind) in list(self.execs.items()):
                    if kind == "reusable":
                        self.closed.add(s)
            ex = make_executor(op["kind"], op["job"], op["result"])
            self.rep.counters["executors_created"] += 1
            self.execs[op["slot"]] = (ex, op["job"], op["result"], op["kind"])
        elif o == "executor_use":
            if op["slot"] in self.execs and op["slot"] not in self.closed:
                ex, J, Rk, _ = self.execs[op["slot"]]
                self._use_exec(ex, J, Rk, label)
        elif o == "executor_close":
            if op["slot"] in self.execs and op["slot"] not in self.closed:
                self.execs[op["slot"]][0].shutdown(wait=True)
                self.closed.add(op["slot"])
        else:
            raise ValueError(o)
        return label

    def _use_pickler(self, slot, label):
        R = _loky()
        p, b, k = self.picklers[slot]
        b.seek(0)
        b.truncate()
        p.clear_memo()
        p.dump(self._payload())
        self._check_marks(R.loads(b.getvalue()), k, "pickler object of slot %d (built earlier with marker %r)" % (slot, k), label)

    def _use_exec(self, ex, J, Rk, label):
        R = _loky()
        backend = R.get_loky_pickler_name()
        r = ex.submit(task_echo, self._payload()).result(timeout=TASK_TIMEOUT)
        self.rep.counters["tasks_run"] += 1
        fails = judge_echo(J, Rk, r.seen, r.marks)
        for clause, text in fails:
            self.rep.violation({"clause": clause, "op": label, "backend": backend}, "%s (job marker %r, result marker %r, back-end %s): %s" % (label, J, Rk, backend, text))
        if not fails and (J is not None or Rk is not None):
            self.rep.nontrivial.add("A|%s|%s" % (label, backend))

    def close_all(self):
        for s, (ex, _, _, _) in self.execs.items():
            if s not in self.closed:
                try:
                    ex.shutdown(wait=True)
                except Exception:
                    pass


def probe_fresh(rep, j, where, backend=None):
    """A fresh pickler WITHOUT reducers must give no marks, one WITH {Payload:
    reducer_j} exactly (j,)."""
    R = _loky()
    backend = backend or R.get_loky_pickler_name()
    for name, rt in fresh_picklers():
        try:
            got = rt(Payload(-1))
        except Exception as e:
            rep.violation(
                {"clause": "roundtrip_failed", "pickler": name, "backend": backend},
                "fresh %s of a Payload raised %s: %s (%s)" % (name, type(e).__name__, e, where),
                once_key=("fresh_failed", name, backend),
            )
            continue
        rep.counters["fresh_pickler_probes"] += 1
        if not isinstance(got, Payload) or got.marks != ():
            rep.violation(
                {"clause": "reducer_leaked_to_later_pickler", "pickler": name, "backend": backend},
                "a fresh %s WITHOUT reducers reconstructed %r: marks must be () (%s; loky back-end %s)" % (name, got, where, backend),
                once_key=("leak", name, backend),
            )
    try:
        got = R.loads(R.dumps(Payload(-2), reducers=rmap(j)))
        rep.counters["fresh_pickler_probes"] += 1
        if not isinstance(got, Payload) or got.marks != (j,):
            clause = "reducer_not_applied" if isinstance(got, Payload) and all(m == j for m in got.marks) else "reducer_leaked_to_later_pickler"
            rep.violation(
                {"clause": clause, "pickler": "loky.dumps(reducers)", "backend": backend},
                "a fresh loky dumps WITH {Payload: reducer_%d} reconstructed %r: marks must be (%d,) (%s; back-end %s)" % (j, got, j, where, backend),
                once_key=("fresh_with", clause, backend),
            )
        else:
            if rep.part == "A":
                rep.nontrivial.add("A|fresh_dumps_with_reducers|%s" % backend)
    except Exception as e:
        rep.violation(
            {"clause": "roundtrip_failed", "pickler": "loky.dumps(reducers)", "backend": backend},
            "fresh loky dumps with reducers raised %s: %s (%s)" % (type(e).__name__, e, where),
            once_key=("fresh_with_failed", backend),
        )


def run_A(job, rep):
    R = _loky()
    mon = RegistryMonitor()
    st = _AState(rep, mon)
    trace = []
    try:
        for i, op in enumerate(job["ops"]):
            where = "operation #%d %s" % (i, json.dumps(op))
            try:
                label = st.apply(op)
            except Exception as e:
                label = a_op_label(op, st)
                if classify_exc(e) == "inconclusive":
                    rep.inconc("A:%s:%s" % (op["op"], type(e).__name__))
                    trace.append([op, "inconclusive:" + type(e).__name__])
                    break
                rep.violation(
                    {"clause": "scoped_operation_failed", "op": label, "backend": R.get_loky_pickler_name(), "exc": type(e).__name__},
                    "%s raised %s: %s\n%s" % (where, type(e).__name__, e, traceback.format_exc()[-1200:]),
                )
            rep.evaluations += 1
            rep.registry_changes(mon, label, where)
            probe_fresh(rep, (i % N_MARKERS) + 1, "after " + where)
            trace.append([op, "ok"])
        # after the whole sequence: both back-ends, fresh
        for b in ("pickle", "cloudpickle"):
            R.set_loky_pickler(b)
            rep.registry_changes(mon, "set_loky_pickler", "the final set_loky_pickler(%r)" % b)
            probe_fresh(rep, 3, "after the whole sequence, back-end %s" % b)
    finally:
        st.close_all()
    rep.samples.append({"part": "A", "ops": trace[:20], "violations": len(rep.violations), "order_signature": order_sig_A(job)})
    return rep


def order_sig_A(job):
    return ">".join(a_op_label(op)[:28] for op in job["ops"])[:400]


# --------------------------------------------------------------------------- #
# part B


def gen_B(rng):
    n = rng.choice([2, 2, 3, 3, 4])
    chosen = ["E0", rng.choice(["E1", "E2", "E3"])] + [rng.choice(["E0", "E1", "E2", "E3", "E4", "E5"]) for _ in range(n - 2)]
    rng.shuffle(chosen)
    execs = []
    for i, s in enumerate(chosen):
        a, b = 2 * i + 1, 2 * i + 2
        J, Rk = {"E0": (None, None), "E1": (a, None), "E2": (a, b), "E3": (None, b), "E4": (a, a), "E5": (a, EMPTY)}[s]
        execs.append({"id": i, "shape": s, "kind": "reusable" if rng.random() < 0.3 else "ppe", "job": J, "result": Rk})
    lanes = []
    reusable_lane = []
    reus = [e for e in execs if e["kind"] == "reusable"]
    for e in execs:
        i = e["id"]
        seq = [["create", i]]
        pend = 0
        for r in range(rng.randint(1, 3)):
            seq.append(["submit", i, rng.choice([0.0, 0.0, 0.05, 0.15])])
            pend += 1
            if rng.random() < 0.55:
                seq.append(["collect", i])
                pend = 0
        last_reusable = e["kind"] != "reusable" or e is reus[-1]
        if rng.random() < 0.5:
            if last_reusable or rng.random() < 0.5:
                seq.append(["shutdown", i])
            seq.append(["collect", i])
        else:
            seq.append(["collect", i])
            if last_reusable or rng.random() < 0.5:
                seq.append(["shutdown", i])
        if e["kind"] == "reusable":
            reusable_lane.extend(seq)
        else:
            lanes.append(seq)
    if reusable_lane:
        lanes.append(reusable_lane)
    if rng.random() < 0.35:
        lanes.append([["set_pickler", rng.choice(["pickle", "cloudpickle", None])] for _ in range(rng.randint(1, 2))])
    events = []
    lanes = [l for l in lanes if l]
    while lanes:
        l = rng.choice(lanes)
        events.append(l.pop(0))
        if not l:
            lanes.remove(l)
    return {"part": "B", "backend": rng.choice(["cloudpickle", "cloudpickle", "pickle"]), "execs": execs, "events": events}


def order_sig_B(job):
    sh = {e["id"]: e["shape"] + ("r" if e["kind"] == "reusable" else "") for e in job["execs"]}
    return " ".join("%s:%s" % (ev[0][:3], sh.get(ev[1], ev[1]) if ev[0] != "set_pickler" else ev[1]) for ev in job["events"])


def run_B(job, rep):
    R = _loky()
    R.set_loky_pickler(job["backend"])
    mon = RegistryMonitor()
    cfg = {e["id"]: e for e in job["execs"]}
    live = {}
    pending = collections.defaultdict(list)
    closed = set()
    log = []
    val = [0]
    sig = order_sig_B(job)
    exercised = set()

    def collect(i):
        e = cfg[i]
        for f, backend_at_submit in pending.pop(i, []):
            r = f.result(timeout=TASK_TIMEOUT)
            rep.counters["tasks_run"] += 1
            rep.evaluations += 1
            fails = judge_echo(e["job"], e["result"], r.seen, r.marks)
            log.append({"exec": i, "shape": e["shape"], "kind": e["kind"], "arg_marks": list(r.seen or ()), "result_marks": list(r.marks), "ok": not fails})
            for clause, text in fails:
                rep.violation(
                    {"clause": clause, "shape": e["shape"], "kind": e["kind"], "backend": backend_at_submit},
                    "executor #%d (%s, %s, job marker %r, result marker %r; back-end at submit %s): %s\nevents: %s"
                    % (i, e["shape"], e["kind"], e["job"], e["result"], backend_at_submit, text, json.dumps(job["events"])),
                )
            if not fails and (e["job"] is not None or e["result"] is not None):
                exercised.add(e["shape"])

    try:
        for ev in job["events"]:
            k = ev[0]
            if k == "set_pickler":
                R.set_loky_pickler(ev[1])
                continue
            i = ev[1]
            e = cfg[i]
            if k == "create":
                if e["kind"] == "reusable":
                    for j, c in cfg.items():
                        if c["kind"] == "reusable" and j in live:
                            closed.add(j)  # replaced (shut down, waiting for its tasks) by loky
                live[i] = make_executor(e["kind"], e["job"], e["result"])
                rep.counters["executors_created"] += 1
            elif k == "submit":
                if i in live and i not in closed:
                    val[0] += 1
                    pending[i].append((live[i].submit(task_echo, Payload(val[0]), ev[2]), R.get_loky_pickler_name()))
            elif k == "collect":
                collect(i)
            elif k == "shutdown":
                if i in live and i not in closed:
                    live[i].shutdown(wait=True)
                    closed.add(i)
        for i in list(pending):
            collect(i)
    except Exception as e:
        if classify_exc(e) == "inconclusive":
            rep.inconc("B:%s" % type(e).__name__)
        else:
            rep.violation(
                {"clause": "task_failed", "exc": type(e).__name__, "backend": job["backend"]},
                "an echo task / executor operation raised %s: %s\n%s\nevents: %s" % (type(e).__name__, e, traceback.format_exc()[-1500:], json.dumps(job["events"])),
            )
    finally:
        for i, ex in live.items():
            if i not in closed:
                try:
                    ex.shutdown(wait=True)
                except Exception:
                    pass
    rep.registry_changes(mon, "executor_scenario", "the executor scenario %s" % sig)
    probe_fresh(rep, 5, "after the executor scenario")
    if exercised:
        rep.nontrivial.add("B|%s|%s" % (sig, job["backend"]))
    rep.samples.append({"part": "B", "backend": job["backend"], "execs": job["execs"], "events": job["events"], "observed": log[:12]})
    return rep


# --------------------------------------------------------------------------- #
# part C: recipes


def _lit(v):
    return {"t": "val", "lit": repr(v)}


def gen_value(rng, kind="any"):
    if kind == "int":
        return _lit(rng.randint(-3, 12))
    if kind == "float":
        return _lit(rng.choice([0.5, 1.5, -2.25, 3.0]))
    if kind == "str":
        return _lit(rng.choice(["", "a", "ab", "x y", "Qz"]))
    if kind == "key":
        return _lit(rng.choice(["a", "b", "zz", 1]))
    if kind == "list":
        return _lit([rng.randint(0, 9) for _ in range(rng.randint(0, 3))])
    if kind == "strlist":
        return _lit([rng.choice(["p", "q", "rs"]) for _ in range(rng.randint(0, 3))])
    if kind == "dict":
        return _lit({rng.choice(["a", "b", "zz"]): rng.randint(0, 9) for _ in range(rng.randint(0, 2))})
    if kind == "tuple":
        return _lit(tuple(rng.randint(0, 4) for _ in range(rng.randint(0, 3))))
    if kind == "set":
        return _lit({rng.randint(0, 5) for _ in range(rng.randint(1, 3))})
    if kind == "bytes":
        return _lit(rng.choice([b"", b"ab", b"\xc3\xa9", b"\xff"]))
    return gen_value(rng, rng.choice(["int", "int", "str", "list", "dict", "tuple", "float", "none"])) if kind == "any" else _lit(None)


def gen_instance(rng, backend, st):
    if st["oids"] and rng.random() < 0.3:
        return dict(rng.choice(st["oids"]))
    cls = rng.choice(["Acc", "Acc", "Vec"] + (["DynBox"] if backend == "cloudpickle" else []))
    st["n"] += 1
    r = {
        "t": "inst",
        "cls": cls,
        "oid": st["n"],
        "init": [gen_value(rng, "int"), gen_value(rng, "list"), gen_value(rng, "str")][: rng.randint(0, 3)],
    }
    st["oids"].append(r)
    return r


def gen_callable(rng, backend, depth, st):
    kinds = ["bound", "bound", "cm", "desc", "bbound", "partial", "partial", "partial"]
    if backend == "cloudpickle":
        kinds += ["dynfn"]
    if depth <= 0:
        kinds = [k for k in kinds if k != "partial"]
    k = rng.choice(kinds)
    if k == "bound":
        inst = gen_instance(rng, backend, st)
        meths = ["add", "info"] if inst["cls"] == "DynBox" else ["add", "add", "scale", "check", "info"]
        return {"t": "bound", "self": inst, "meth": rng.choice(meths)}
    if k == "cm":
        via = rng.choice(["class", "instance"])
        if via == "class":
            cls = rng.choice(["Acc", "Vec"] + (["DynBox"] if backend == "cloudpickle" else []))
            return {"t": "cm", "via": "class", "cls": cls, "meth": rng.choice(["make"] if cls == "DynBox" else ["make", "build"])}
        inst = gen_instance(rng, backend, st)
        return {"t": "cm", "via": "instance", "self": inst, "meth": rng.choice(["make"] if inst["cls"] == "DynBox" else ["make", "build"])}
    if k == "desc":
        o, n, _ = rng.choice(DESCRIPTORS)
        return {"t": "desc", "owner": o, "name": n}
    if k == "bbound":
        o, n, _ = rng.choice(BBOUND)
        return {"t": "bbound", "owner": o, "self": gen_value(rng, o), "name": n}
    if k == "dynfn":
        return {"t": "dynfn", "name": rng.choice(DYN_FUNCS)}
    # partial
    c = rng.random()
    if c < 0.45:
        func = {"t": "fn", "name": rng.choice(["fn_collect", "fn_collect", "fn_kw", "fn_apply", "fn_raise"])}
    elif c < 0.55:
        func = {"t": "cls", "name": rng.choice(["Acc", "Vec", "int", "dict", "list"])}
    else:
        func = gen_callable(rng, backend, depth - 1, st)
    args = []
    if func["t"] == "fn" and func["name"] == "fn_apply":
        args.append(gen_callable(rng, backend, depth - 1, st))
    for _ in range(rng.choice([0, 0, 1, 1, 2])):
        args.append(gen_value(rng, "int" if rng.random() < 0.6 else "any"))
    kw = {}
    if rng.random() < 0.7:
        for _ in range(rng.randint(1, 2)):
            name = rng.choice(KW_NAMES)
            kw[name] = gen_callable(rng, backend, 0, st) if rng.random() < 0.08 else gen_value(rng, "int" if rng.random() < 0.6 else "any")
    return {"t": "partial", "func": func, "args": args, "kw": kw}


def _args_for(rng, kinds):
    return [gen_value(rng, k) for k in kinds]


def plausible_call(rng, c, backend, st):
    """(args, kwargs) recipes that make sense for the callable recipe c."""
    t = c["t"]
    if t in ("bound", "cm"):
        m = c["meth"]
        if m == "add":
            return [gen_value(rng, "int")], ({"y": gen_value(rng, "int")} if rng.random() < 0.4 else {})
        if m == "scale":
            return [gen_value(rng, "int")], ({"offset": gen_value(rng, "int")} if rng.random() < 0.5 else {})
        if m == "check":
            return [gen_value(rng, rng.choice(["int", "int", "str"]))], {}
        if m == "build":
            return [gen_value(rng, "int")], ({"tag": gen_value(rng, "str")} if rng.random() < 0.5 else {})
        return [gen_value(rng) for _ in range(rng.randint(0, 2))], ({rng.choice(KW_NAMES): gen_value(rng)} if rng.random() < 0.5 else {})
    if t == "desc":
        kinds = [a for o, n, a in DESCRIPTORS if (o, n) == (c["owner"], c["name"])][0]
        return [gen_value(rng, c["owner"])] + _args_for(rng, kinds), {}
    if t == "bbound":
        kinds = [a for o, n, a in BBOUND if (o, n) == (c["owner"], c["name"])][0]
        return _args_for(rng, kinds), {}
    if t == "fn":
        n = c["name"]
        if n == "fn_kw":
            return [gen_value(rng, "int")], ({rng.choice(["b", "c"]): gen_value(rng, "int")} if rng.random() < 0.6 else {})
        if n == "fn_apply":
            return [{"t": "fn", "name": "fn_collect"}, gen_value(rng, "int")], {}
        if n == "fn_raise":
            return [gen_value(rng, "str")], {}
        return [gen_value(rng) for _ in range(rng.randint(0, 2))], ({rng.choice(KW_NAMES): gen_value(rng)} if rng.random() < 0.5 else {})
    if t == "cls":
        return ([gen_value(rng, "int")] if rng.random() < 0.6 else []), {}
    if t == "dynfn":
        return [gen_value(rng, "int") for _ in range(rng.randint(0, 2))], ({rng.choice(KW_NAMES): gen_value(rng, "int")} if rng.random() < 0.4 else {})
    if t == "partial":
        inner = c["func"]
        if inner["t"] == "fn" and inner["name"] == "fn_apply" and c["args"] and c["args"][0]["t"] != "val":
            a, k = plausible_call(rng, c["args"][0], backend, st)
            drop = len(c["args"]) - 1
        else:
            a, k = plausible_call(rng, inner, backend, st)
            drop = len(c["args"])
        a = a[drop:] if rng.random() < 0.7 else a
        k = {n: v for n, v in k.items() if n not in c["kw"] or rng.random() < 0.4}
        return a, k
    return [], {}


def gen_calls(rng, c, backend, st):
    calls = []
    for _ in range(rng.randint(2, 4)):
        if rng.random() < 0.75:
            a, k = plausible_call(rng, c, backend, st)
        else:  # junk: mostly raises, identically on both sides
            a = [gen_value(rng) for _ in range(rng.randint(0, 3))]
            k = {rng.choice(KW_NAMES): gen_value(rng)} if rng.random() < 0.3 else {}
        calls.append({"args": a, "kwargs": k})
    return calls


def gen_graph(rng, backend, depth, st):
    c = rng.random()
    if depth > 0 and c < 0.45:
        t = rng.choice(["list", "tuple", "dict"])
        items = [gen_graph(rng, backend, depth - 1, st) for _ in range(rng.randint(1, 3))]
        if t == "dict":
            return {"t": "dict", "keys": ["k%d" % i for i in range(len(items))], "items": items}
        return {"t": t, "items": items}
    if c > 0.92:
        return gen_value(rng)
    if c > 0.86 and st.get("payload"):
        st["n"] += 1
        return {"t": "payload", "value": st["n"]}
    leaf = gen_callable(rng, backend, 2, st)
    leaf = dict(leaf)
    leaf["calls"] = gen_calls(rng, leaf, backend, st)
    return leaf


def gen_C_recipe(rng, backend):
    st = {"n": 0, "oids": [], "payload": rng.random() < 0.25}
    k = rng.randint(1, N_MARKERS) if st["payload"] else None
    g = gen_graph(rng, backend, rng.choice([0, 1, 1, 2, 3]), st)
    if not _has_callable(g):
        leaf = dict(gen_callable(rng, backend, 2, st))
        leaf["calls"] = gen_calls(rng, leaf, backend, st)
        g = {"t": "list", "items": [g, leaf]}
    return {"graph": g, "reducers": k, "proto": rng.choice([None, None, None, 2, 3, 4, 5]), "route": rng.choice(["dumps", "dumps", "dump", "pickler"])}


def _has_callable(g):
    if g["t"] in ("list", "tuple", "dict"):
        return any(_has_callable(i) for i in g["items"])
    return g["t"] not in ("val", "payload")


def kind_sig(c):
    t = c["t"]
    if t in ("list", "tuple", "dict"):
        return "%s(%s)" % (t, ",".join(kind_sig(i) for i in c["items"]))
    if t == "val":
        return "v"
    if t == "payload":
        return "P"
    if t == "bound":
        return "bound[%s.%s]" % (c["self"]["cls"], c["meth"])
    if t == "cm":
        return "cm[%s.%s/%s]" % (c.get("cls") or c["self"]["cls"], c["meth"], c["via"])
    if t == "desc":
        return "desc[%s.%s]" % (c["owner"], c["name"])
    if t == "bbound":
        return "bbound[%s.%s]" % (c["owner"], c["name"])
    if t in ("fn", "cls", "dynfn"):
        return "%s[%s]" % (t, c["name"])
    if t == "partial":
        inner = [kind_sig(a) for a in c["args"] if a["t"] != "val"] + [kind_sig(v) for v in c["kw"].values() if v["t"] != "val"]
        return "partial(%s;%da;kw=%s%s)" % (kind_sig(c["func"]), len(c["args"]), ",".join(sorted(c["kw"])), (";" + ",".join(inner)) if inner else "")
    return t


class BuildCtx:
    def __init__(self):
        self.objs = {}
        self.ns = None

    def dyn(self, name):
        if self.ns is None:
            self.ns = {"__name__": DYN_NS}
            exec(compile(DYN_SRC, "<c15-dyn>", "exec"), self.ns)
        return self.ns[name]


def build(r, ctx):
    t = r["t"]
    if t == "val":
        return set() if r["lit"] == "set()" else ast.literal_eval(r["lit"])
    if t == "payload":
        return Payload(r["value"])
    if t == "list":
        return [build(i, ctx) for i in r["items"]]
    if t == "tuple":
        return tuple(build(i, ctx) for i in r["items"])
    if t == "dict":
        return {k: build(i, ctx) for k, i in zip(r["keys"], r["items"])}
    if t == "inst":
        if r["oid"] not in ctx.objs:
            cls = MODULE_CLASSES.get(r["cls"]) or ctx.dyn(r["cls"])
            ctx.objs[r["oid"]] = cls(*[build(a, ctx) for a in r["init"]])
        return ctx.objs[r["oid"]]
    if t == "bound":
        return getattr(build(r["self"], ctx), r["meth"])
    if t == "cm":
        if r["via"] == "class":
            return getattr(MODULE_CLASSES.get(r["cls"]) or ctx.dyn(r["cls"]), r["meth"])
        return getattr(build(r["self"], ctx), r["meth"])
    if t == "desc":
        return getattr(OWNERS[r["owner"]], r["name"])
    if t == "bbound":
        return getattr(build(r["self"], ctx), r["name"])
    if t == "fn":
        return MODULE_FUNCS[r["name"]]
    if t == "cls":
        return MODULE_CLASSES.get(r["name"]) or BUILTIN_CLASSES[r["name"]]
    if t == "dynfn":
        return ctx.dyn(r["name"])
    if t == "partial":
        return functools.partial(build(r["func"], ctx), *[build(a, ctx) for a in r["args"]], **{k: build(v, ctx) for k, v in r["kw"].items()})
    raise ValueError(t)


# --------------------------------------------------------------------------- #
# part C: differential oracle

_DESC_TYPES = (types.MethodDescriptorType, types.WrapperDescriptorType, types.ClassMethodDescriptorType, types.GetSetDescriptorType, types.MemberDescriptorType)


def equiv(a, b, d=0):
    if d > 14:
        return True
    ta, tb = type(a), type(b)
    if isinstance(a, functools.partial):
        return isinstance(b, functools.partial) and equiv(a.func, b.func, d + 1) and equiv(a.args, b.args, d + 1) and equiv(a.keywords, b.keywords, d + 1)
    if isinstance(a, types.MethodType):
        return isinstance(b, types.MethodType) and equiv(a.__func__, b.__func__, d + 1) and equiv(a.__self__, b.__self__, d + 1)
    if isinstance(a, (types.BuiltinMethodType, types.MethodWrapperType)):
        if ta is not tb or a.__name__ != b.__name__:
            return False
        sa, sb = getattr(a, "__self__", None), getattr(b, "__self__", None)
        if sa is None or isinstance(sa, types.ModuleType):
            return a is b
        return equiv(sa, sb, d + 1)
    if isinstance(a, _DESC_TYPES):
        return a is b
    if isinstance(a, types.FunctionType):
        if a is b:
            return True
        return isinstance(b, types.FunctionType) and a.__name__ == b.__name__ and a.__code__.co_code == b.__code__.co_code and a.__defaults__ == b.__defaults__
    if isinstance(a, type):
        return a is b or (isinstance(b, type) and a.__name__ == b.__name__ and a.__module__ == b.__module__)
    if hasattr(ta, "_lv_state"):
        return hasattr(tb, "_lv_state") and ta.__name__ == tb.__name__ and equiv(a._lv_state(), b._lv_state(), d + 1)
    if ta is not tb:
        return False
    if ta in (list, tuple):
        return len(a) == len(b) and all(equiv(x, y, d + 1) for x, y in zip(a, b))
    if ta is dict:
        try:
            if set(a) != set(b):
                return False
        except TypeError:
            return False
        return all(equiv(a[k], b[k], d + 1) for k in a)
    try:
        return bool(a == b)
    except Exception:
        return False


def outcome(f, a, k):
    try:
        return ("ok", f(*a, **k))
    except Exception as e:
        return ("exc", type(e).__name__)


def _short(x, n=160):
    try:
        s = repr(x)
    except Exception:
        s = "<%s>" % type(x).__name__
    return s if len(s) <= n else s[:n] + "..."


def compare_callable(f, g, leaf, path, fails):
    kind = leaf["t"]
    if isinstance(f, functools.partial):
        if not isinstance(g, functools.partial):
            fails.append((kind, "type", "%s: a partial came back as %s" % (path, _short(g))))
            return 0, 0
        for attr in ("func", "args", "keywords"):
            if not equiv(getattr(f, attr), getattr(g, attr)):
                fails.append((kind, attr, "%s: partial.%s was %s, is %s after the round trip" % (path, attr, _short(getattr(f, attr)), _short(getattr(g, attr)))))
    elif type(f) is not type(g):
        fails.append((kind, "type", "%s: %s (%s) came back as %s (%s)" % (path, _short(f), type(f).__name__, _short(g), type(g).__name__)))
    elif not equiv(f, g):
        fails.append((kind, "binding", "%s: %s came back as %s (different function or different bound object state)" % (path, _short(f), _short(g))))
    n = n_ok = 0
    for ci, call in enumerate(leaf.get("calls", ())):
        c1, c2 = BuildCtx(), BuildCtx()
        a1 = [build(a, c1) for a in call["args"]]
        k1 = {k: build(v, c1) for k, v in call["kwargs"].items()}
        a2 = [build(a, c2) for a in call["args"]]
        k2 = {k: build(v, c2) for k, v in call["kwargs"].items()}
        of, og = outcome(f, a1, k1), outcome(g, a2, k2)
        n += 1
        n_ok += of[0] == "ok"
        if not equiv(of, og):
            fails.append((kind, "call_result", "%s: call #%d %s gives %s on the original, %s on the round-tripped object" % (path, ci, _short((a1, k1), 120), _short(of), _short(og))))
            break
        if not equiv(a1, a2) or not equiv(k1, k2):
            fails.append((kind, "call_side_effect", "%s: call #%d left its arguments as %s (original) vs %s (round-tripped)" % (path, ci, _short((a1, k1)), _short((a2, k2)))))
            break
        if type(f) is type(g) and not isinstance(f, functools.partial) and not equiv(f, g):
            fails.append((kind, "state_after_call", "%s: after call #%d the bound object is %s (original) vs %s (round-tripped)" % (path, ci, _short(f), _short(g))))
            break
    return n, n_ok


def walk(a, b, r, path, fails, stats, reducers):
    t = r["t"]
    if t in ("list", "tuple"):
        if type(a) is not type(b) or len(a) != len(b):
            fails.append((t, "container", "%s: %s came back as %s" % (path, _short(a), _short(b))))
            return
        for i, it in enumerate(r["items"]):
            walk(a[i], b[i], it, "%s[%d]" % (path, i), fails, stats, reducers)
    elif t == "dict":
        if type(b) is not dict or set(a) != set(b):
            fails.append((t, "container", "%s: %s came back as %s" % (path, _short(a), _short(b))))
            return
        for k, it in zip(r["keys"], r["items"]):
            walk(a[k], b[k], it, "%s[%r]" % (path, k), fails, stats, reducers)
    elif t == "val":
        if not equiv(a, b):
            fails.append((t, "data", "%s: %s came back as %s" % (path, _short(a), _short(b))))
    elif t == "payload":
        exp = (reducers,) if reducers is not None else ()
        if not isinstance(b, Payload) or b.marks != exp or b.value != a.value:
            fails.append((t, "marks", "%s: Payload came back as %s, expected marks %r" % (path, _short(b), exp)))
        elif reducers is not None:
            stats["custom"] = True
    else:
        n, n_ok = compare_callable(a, b, r, path, fails)
        stats["calls"] += n
        stats["calls_ok"] += n_ok
        stats["leaves"] += 1


class _ReducerSpy:
    """Measures (does not alter) which of loky's built-in reducers ran."""

    def __init__(self):
        R = _loky()
        self.codes = {}
        for n in ("_reduce_method", "_reduce_method_descriptor", "_reduce_partial"):
            f = getattr(R, n, None)
            if f is not None and hasattr(f, "__code__"):
                self.codes[f.__code__] = n
        self.hits = set()

    def _cb(self, frame, event, arg):
        if event == "call":
            n = self.codes.get(frame.f_code)
            if n is not None:
                self.hits.add(n)

    def __enter__(self):
        self.hits = set()
        sys.setprofile(self._cb)
        return self

    def __exit__(self, *a):
        sys.setprofile(None)


def eval_C(recipe, backend, rep, spy):
    R = _loky()
    g = recipe["graph"]
    k = recipe.get("reducers")
    ksig = kind_sig(g)
    scenario = {"part": "C1", "backend": backend, "recipe": recipe, "repo": rep.job.get("repo")}
    obj = build(g, BuildCtx())
    rep.evaluations += 1
    kw = {} if recipe["proto"] is None else {"protocol": recipe["proto"]}
    try:
        with spy:
            if recipe["route"] == "dumps":
                data = R.dumps(obj, reducers=rmap(k), **kw)
            elif recipe["route"] == "dump":
                buf = io.BytesIO()
                R.dump(obj, buf, reducers=rmap(k), protocol=recipe["proto"])
                data = buf.getvalue()
            else:
                buf = io.BytesIO()
                R.get_loky_pickler()(buf, reducers=rmap(k), **kw).dump(obj)
                data = buf.getvalue()
        obj2 = R.loads(data)
    except Exception as e:
        rep.violation(
            {"clause": "roundtrip_failed", "backend": backend, "exc": type(e).__name__, "kind": _first_kind(g)},
            "back-end %s, %s(protocol=%r): round trip of %s raised %s: %s" % (backend, recipe["route"], recipe["proto"], ksig, type(e).__name__, str(e)[:300]),
            scenario,
        )
        return
    hits = set(spy.hits)
    fails = []
    stats = {"calls": 0, "calls_ok": 0, "leaves": 0, "custom": False}
    walk(obj, obj2, g, "$", fails, stats, k)
    rep.counters["roundtrips_compared"] += 1
    rep.counters["calls_compared"] += stats["calls"]
    rep.counters["calls_where_original_returns_normally"] += stats["calls_ok"]
    rep.counters["callable_leaves_compared"] += stats["leaves"]
    for h in hits:
        rep.counters["builtin_reducer_runs:" + h] += 1
    if hits or stats["custom"]:
        rep.nontrivial.add("C|%s|%s" % (ksig[:300], backend))
    seen = set()
    for kind, what, text in fails:
        if (kind, what) in seen:
            continue
        seen.add((kind, what))
        clause = "reducer_not_applied" if kind == "payload" else "roundtrip_behaviour_differs"
        rep.violation(
            {"clause": clause, "kind": kind, "what": what, "backend": backend},
            "back-end %s, %s(protocol=%r), graph %s:\n%s" % (backend, recipe["route"], recipe["proto"], ksig[:400], text),
            scenario,
        )
    if len(rep.samples) < 3 and len(hits) >= min(2, len(rep.samples) + 1):
        rep.samples.append({"part": "C", "backend": backend, "graph": ksig[:300], "route": recipe["route"], "protocol": recipe["proto"], "builtin_reducers_run": sorted(hits), "calls_compared": stats["calls"], "differences": len(fails)})


def _first_kind(g):
    if g["t"] in ("list", "tuple", "dict"):
        for i in g["items"]:
            k = _first_kind(i)
            if k not in ("val", "payload"):
                return k
        return g["t"]
    return g["t"]


EDGE_NOTE = (
    "not judged: corner cases in which loky's getattr-based method reducer (identical to CPython's own method.__reduce__) "
    "does not reproduce the callable"
)


def edge_observations():
    """Corner cases recorded, not judged (see ASSUMPTIONS of the check)."""
    import pickle

    R = _loky()
    out = []

    def both(label, f, call):
        row = {"case": label, "original": _short(outcome(call, [f], {}))}
        for name, rt in (("loky", lambda x: R.loads(R.dumps(x))), ("cpython_pickle", lambda x: pickle.loads(pickle.dumps(x)))):
            try:
                row[name] = _short(outcome(call, [rt(f)], {}))
            except Exception as e:
                row[name] = "round trip raised %s" % type(e).__name__
        out.append(row)

    v = Vec(1)
    both("base-class function bound to a subclass instance (Acc.add.__get__(Vec(1)))", Acc.add.__get__(v), lambda m: m(2))
    a = Acc(1)
    m = a.check
    a.check = 5
    both("method whose name is shadowed by an instance attribute", m, lambda m: m(2) if callable(m) else ("not callable", m))
    return out


def run_C(job, rep):
    R = _loky()
    backend = job["backend"]
    R.set_loky_pickler(backend)
    mon = RegistryMonitor()
    spy = _ReducerSpy()
    for i in range(job["first"], job["first"] + job["n"]):
        rng = random.Random("c15|C|%s|%s|%d" % (job["seed"], backend, i))
        recipe = gen_C_recipe(rng, backend)
        try:
            eval_C(recipe, backend, rep, spy)
        except Exception as e:
            rep.inconc("C:harness_error:%s" % type(e).__name__)
            print("C15 engine error on example %d: %s" % (i, traceback.format_exc()), file=sys.stderr)
    rep.registry_changes(mon, "roundtrips_of_builtin_kinds", "%d round trips of built-in kinds" % job["n"])
    if job.get("edges"):
        try:
            rep.edges = edge_observations()
        except Exception as e:
            rep.edges = [{"error": repr(e)}]
    return rep


def run_C1(job, rep):
    R = _loky()
    R.set_loky_pickler(job["backend"])
    eval_C(job["recipe"], job["backend"], rep, _ReducerSpy())
    return rep


# --------------------------------------------------------------------------- #
# part D


def gen_D(rng):
    env = rng.choice([None, None, None, "pickle", "cloudpickle", ""])
    names = ["pickle", "cloudpickle", None, ""]
    nph = rng.choice([2, 2, 3, 3, 4])
    phases = []
    cur = resolve_name(None, env)
    for p in range(nph):
        if p == 0 and rng.random() < 0.25:
            s = "keep"
        else:
            cands = [n for n in names if resolve_name(n, env) != cur] if rng.random() < 0.9 else names
            s = rng.choice(cands or names)
            cur = resolve_name(s, env)
        last = p == nph - 1
        nt = rng.randint(2, 4) if last else rng.randint(5, 9)
        tasks = []
        for j in range(nt):
            tasks.append({"kind": "probe" if rng.random() < 0.7 else "witness", "sleep": 0.25 if j == 0 and not last else 0.0})
        phases.append({"set": s, "tasks": tasks})
    cands = [n for n in names if resolve_name(n, env) != cur]
    return {
        "part": "D",
        "env_pickler": env,
        "kind": "reusable" if rng.random() < 0.25 else "ppe",
        "phases": phases,
        "final_set": rng.choice(cands or names),
        "inject": rng.random() < 0.35,
    }


def order_sig_D(job):
    return "env=%r %s %s final=%r%s" % (
        job["env_pickler"],
        job["kind"],
        " ".join("%s x%d(%dw)" % ("keep" if p["set"] == "keep" else repr(p["set"]), len(p["tasks"]), sum(t["kind"] == "witness" for t in p["tasks"])) for p in job["phases"]),
        job["final_set"],
        " +dispatch-delay" if job.get("inject") else "",
    )


def run_D(job, rep):
    import pickle

    R = _loky()
    env = job["env_pickler"]
    if os.environ.get("LOKY_PICKLER") != env:
        raise RuntimeError("LOKY_PICKLER is %r in this child, scenario wants %r" % (os.environ.get("LOKY_PICKLER"), env))
    mon = RegistryMonitor()
    sig = order_sig_D(job)
    model = resolve_name(None, env)
    subs = []  # (phase, idx, kind, recorded name, future)

    def check_selection(after):
        got = R.get_loky_pickler_name()
        cls = R.get_loky_pickler()
        base = getattr(cls, "_loky_pickler_cls", None)
        import cloudpickle

        want_base = cloudpickle.CloudPickler if model == "cloudpickle" else pickle.Pickler
        if got != model or (base is not None and base is not want_base):
            rep.violation(
                {"clause": "set_loky_pickler_selection_wrong", "env_pickler": repr(env)},
                "after %s with LOKY_PICKLER=%r the selected pickler is %r (class based on %r), the statement's model says %r" % (after, env, got, base, model),
                once_key=("sel", after),
            )

    check_selection("start-up")
    ex = make_executor(job["kind"], None, None)
    rep.counters["executors_created"] += 1
    names_recorded = []
    try:
        for pi, ph in enumerate(job["phases"]):
            if ph["set"] != "keep":
                R.set_loky_pickler(ph["set"])
                model = resolve_name(ph["set"], env)
                check_selection("set_loky_pickler(%r)" % (ph["set"],))
            for ti, t in enumerate(ph["tasks"]):
                rec = R.get_loky_pickler_name()  # the pickler selected when the task is submitted
                f = ex.submit(task_probe if t["kind"] == "probe" else task_witness, t["sleep"])
                subs.append((pi, ti, t["kind"], rec, f))
                names_recorded.append(rec)
        R.set_loky_pickler(job["final_set"])
        model = resolve_name(job["final_set"], env)
        check_selection("set_loky_pickler(%r)" % (job["final_set"],))
        final_name = R.get_loky_pickler_name()
        observed = []
        for pi, ti, kind, rec, f in subs:
            rep.evaluations += 1
            rep.counters["pickler_probes"] += 1
            rep.counters["tasks_run"] += 1
            try:
                r = f.result(timeout=TASK_TIMEOUT)
                exc = None
            except Exception as e:
                if classify_exc(e) == "inconclusive":
                    rep.inconc("D:%s" % type(e).__name__)
                    break
                r, exc = None, e
            if kind == "probe":
                obs = r if exc is None else "raised %s" % type(exc).__name__
                how = "name seen by the task in the worker"
                bad = obs != rec
            else:
                how = "behaviour of the worker's result pickling (a local function: cloudpickle can send it, pickle cannot)"
                if exc is None:
                    try:
                        inner = r()
                    except Exception as e2:
                        inner = "witness raised %s" % type(e2).__name__
                    obs = "sent back; name seen by the task: %s" % inner
                    bad = rec != "cloudpickle" or inner != rec
                else:
                    pick = type(exc).__name__ in ("PicklingError", "AttributeError", "TypeError")
                    obs = "result could not be pickled (%s)" % type(exc).__name__ if pick else "raised %s" % type(exc).__name__
                    bad = rec != "pickle" or not pick
            observed.append([pi, ti, kind, rec, obs])
            if bad:
                rep.violation(
                    {"clause": "pickler_not_the_one_selected_at_submit", "observed_by": "name" if kind == "probe" else "result_pickling_behaviour", "selected": rec},
                    "task %d of phase %d was submitted while the selected pickler was %r; %s: %s. The parent's selection when the results were collected was %r.\nscenario: %s"
                    % (ti, pi, rec, how, obs, final_name, sig),
                    once_key=("D", kind, rec),
                )
        if len(set(names_recorded)) > 1 or any(n != final_name for n in names_recorded):
            rep.nontrivial.add("D|%s|-" % sig)
        rep.samples.append({"part": "D", "scenario": sig, "per_task [phase, index, kind, selected_at_submit, observed]": observed[:14]})
    except Exception as e:
        if classify_exc(e) == "inconclusive":
            rep.inconc("D:%s" % type(e).__name__)
        else:
            raise
    finally:
        try:
            ex.shutdown(wait=True)
        except Exception:
            pass
    rep.registry_changes(mon, "set_loky_pickler_and_submit_sequence", "the scenario %s" % sig)
    return rep


# --------------------------------------------------------------------------- #
# child entry point

RUNNERS = {"A": run_A, "B": run_B, "C": run_C, "C1": run_C1, "D": run_D}


def child_main(argv=None):
    argv = sys.argv[1:] if argv is None else argv
    arg = argv[0]
    job = json.load(open(arg)) if os.path.exists(arg) else json.loads(arg)
    repo = job.get("repo") or os.environ.get("VERIF_REPO")
    out = None
    try:
        if repo:
            assert_repo(repo)
        preimport()
        rep = Report(job)
        rep.edges = None
        RUNNERS[job["part"]](job, rep)
        out = rep.out()
        if rep.edges is not None:
            out["edges"] = rep.edges
    except BaseException as e:  # reported to the parent as an engine failure, never as a verdict
        out = {"error": "%s: %s\n%s" % (type(e).__name__, e, traceback.format_exc()[-3000:])}
    sys.stdout.write("\n%s%s\n" % (RESULT_TAG, json.dumps(out, default=repr)))
    sys.stdout.flush()
    return 0


if __name__ == "__main__":
    # always work through the importable module object: Payload & co must be
    # harness.inproc.reduction_monitor.Payload, not __main__.Payload
    from harness.inproc import reduction_monitor as _real

    sys.exit(_real.child_main(sys.argv[1:]))
