"""C14 engine - histories + oracles for loky's synchronisation primitives.

Three parts, all in this module:

* the *stress driver* (``driver_main``): run as a subprocess per case with the
  injector's environment, cwd = case dir.  It creates real primitives from
  ``loky.backend.get_context(...)``, spawns P real ``ctx.Process`` children
  that receive PICKLED COPIES of the primitives, hosts T actor threads itself,
  and plays a program of histories.  Commands travel over plain pipes /
  ``queue.SimpleQueue`` (never through a primitive under test).  Every
  operation is recorded ``{h, a(ctor), o(p), c(all_t), r(et_t), v(result)}``
  with ``time.monotonic()`` in ``ops.<process index>.jsonl`` (O_APPEND, one
  ``os.write`` per record).  Timestamps that prove a HOLD are taken after
  ``acquire`` returned and before ``release`` is called.  The coordinator (main
  thread of the driver) never touches a primitive itself except for read-only
  ``_get_value()`` snapshots at quiescence: all its waits are bounded polls of
  the ops files.
* the *generator* (``gen_program``): which histories a case plays.
* the *oracles* (``evaluate_case``): pure functions over the recorded files,
  used by ``harness.checks.C14``.  No loky import is needed for them.
"""
import faulthandler
import json
import mmap
import os
import queue
import random
import signal
import struct
import sys
import threading
import time
import traceback
import zlib

_now = time.monotonic
BOUND = 10.0  # bounded-progress wait of a phase (s)
SLACK = 1e-3  # clock slack for "False only after the timeout expired"
WATCHDOG = 40.0  # faulthandler backstop per history (the coordinator's own bounds fire first)
TINY = [1e-5, 1e-4, 1e-3, 5e-3]
SYNC_FILE = "backend/synchronize.py"
INSTRUMENTED = [
    "Condition.wait",
    "Condition.notify",
    "Condition.notify_all",
    "Condition.wait_for",
    "Event.is_set",
    "Event.set",
    "Event.clear",
    "Event.wait",
    "SemLock.__enter__",
    "SemLock.__exit__",
    "Condition.__enter__",
    "Condition.__exit__",
]


def _dumps(o):
    return json.dumps(o, separators=(",", ":"), default=repr)


def _exc(e):
    return {"t": type(e).__name__, "m": str(e)[:300], "tb": traceback.format_exc()[-1800:]}


def _false():
    return False


def _crc(*a):
    return zlib.crc32("|".join(str(x) for x in a).encode())


# ---------------------------------------------------------------------------
# injection points, computed from the source of the tree under test
# ---------------------------------------------------------------------------
def injection_points(repo):
    """[(qualname, rel)] for every statement line of the instrumented functions
    of <repo>/loky/backend/synchronize.py (compiled, not imported)."""
    path = os.path.join(repo, "loky", "backend", "synchronize.py")
    with open(path) as f:
        top = compile(f.read(), path, "exec")
    out = []

    def walk(code):
        for c in code.co_consts:
            if hasattr(c, "co_code"):
                if c.co_qualname in INSTRUMENTED:
                    lines = sorted({l for _, _, l in c.co_lines() if l is not None and l > c.co_firstlineno})
                    for l in lines:
                        out.append((c.co_qualname, l - c.co_firstlineno))
                walk(c)

    walk(top)
    return out


# ---------------------------------------------------------------------------
# actors
# ---------------------------------------------------------------------------
class Host:
    """One per process: the actor threads of that process."""

    def __init__(self, pidx, casedir, prims, nthreads):
        self.pidx = pidx
        self.casedir = casedir
        self.prims = prims
        self.fd = os.open(os.path.join(casedir, "ops.%d.jsonl" % pidx), os.O_WRONLY | os.O_CREAT | os.O_APPEND, 0o644)
        self._cf = open(os.path.join(casedir, "ctr.bin"), "r+b")
        self.mm = mmap.mmap(self._cf.fileno(), 8192)
        self.queues = [queue.SimpleQueue() for _ in range(nthreads)]
        self.threads = []
        for t in range(nthreads):
            th = threading.Thread(target=self._actor, args=(t,), name="lv-a%d" % t, daemon=True)
            th.start()
            self.threads.append(th)

    def log(self, rec):
        os.write(self.fd, (_dumps(rec) + "\n").encode())

    def stop(self):
        for q in self.queues:
            q.put(None)
        for th in self.threads:
            th.join(2.0)

    def _actor(self, tidx):
        A = "p%dt%d" % (self.pidx, tidx)
        q = self.queues[tidx]
        while True:
            cmd = q.get()
            if cmd is None:
                return
            d = {"h": cmd["h"], "a": A, "o": "done", "id": cmd["id"]}
            try:
                getattr(self, "k_" + cmd["cmd"])(A, cmd)
            except BaseException as e:  # harness-level trouble or an escaped exception
                d["x"] = _exc(e)
            self.log(d)

    # -- helpers
    def _gap(self, rng, scale=1.0):
        u = rng.random()
        if u < 0.3:
            return
        if u < 0.5:
            time.sleep(0)
        elif u < 0.6:
            os.sched_yield()
        else:
            time.sleep(rng.uniform(1e-5, 3e-4) * scale)

    def _rd(self, off):
        return struct.unpack_from("<q", self.mm, off)[0]

    def _wr(self, off, v):
        struct.pack_into("<q", self.mm, off, v)

    # -- generic single operation (protocol histories)
    def k_op(self, A, c):
        p = self.prims[c["p"]]
        rec = {"h": c["h"], "a": A, "o": c["m"], "args": c.get("args", []), "tag": c.get("tag")}
        try:
            c0 = _now()
            v = getattr(p, c["m"])(*c.get("args", []))
            rec.update(c=c0, r=_now(), v=v)
        except BaseException as e:
            rec.update(c=c0, r=_now(), x=_exc(e))
        self.log(rec)

    # -- Lock / RLock mutual exclusion with a non-atomic shared counter
    def k_lock_stress(self, A, c):
        lk = self.prims[c["p"]]
        rng = random.Random(_crc(c["seed"], A))
        off = c["slot"] * 8
        style = c["style"]
        for _ in range(c["n"]):
            if _now() > c["deadline"]:
                break
            d = rng.randint(1, c.get("maxdepth", 1))
            rec = {"h": c["h"], "a": A, "o": "hold", "st": style, "d": d}
            held = 0
            try:
                c0 = _now()
                rec["c"] = c0
                if style == "with":
                    ok = lk.__enter__()
                else:
                    ok = lk.acquire(True, BOUND)
                if not ok:
                    rec["starved"] = True
                    self.log(rec)
                    break
                held = 1
                a = _now()
                for _i in range(d - 1):
                    if not lk.acquire(True, 2.0):
                        rec["reacq_fail"] = True
                        break
                    held += 1
                v = self._rd(off)
                self._gap(rng)
                # an RLock acquired d times must stay held through d-1 releases
                while held > 1:
                    lk.release()
                    held -= 1
                if d > 1:
                    self._gap(rng)
                self._wr(off, v + 1)
                b = _now()
                if style == "with":
                    lk.__exit__(None, None, None)
                else:
                    lk.release()
                held = 0
                rec.update(ta=a, tb=b, r=_now(), v=v)
            except BaseException as e:
                rec["x"] = _exc(e)
            self.log(rec)
            if "x" in rec or "reacq_fail" in rec:
                break
            if rng.random() < 0.3:
                self._gap(rng, 0.5)

    # -- Semaphore(n) / BoundedSemaphore(n): hold intervals
    def k_sem_stress(self, A, c):
        sem = self.prims[c["p"]]
        rng = random.Random(_crc(c["seed"], A))
        for _ in range(c["n"]):
            if _now() > c["deadline"]:
                break
            rec = {"h": c["h"], "a": A, "o": "hold", "st": c["style"], "d": 1}
            try:
                c0 = _now()
                rec["c"] = c0
                if c["style"] == "with":
                    ok = sem.__enter__()
                else:
                    ok = sem.acquire(True, BOUND)
                if not ok:
                    rec["starved"] = True
                    self.log(rec)
                    break
                a = _now()
                time.sleep(rng.uniform(2e-5, 4e-4))
                b = _now()
                if c["style"] == "with":
                    sem.__exit__(None, None, None)
                else:
                    sem.release()
                rec.update(ta=a, tb=b, r=_now())
            except BaseException as e:
                rec["x"] = _exc(e)
            self.log(rec)
            if "x" in rec:
                break
            if rng.random() < 0.3:
                self._gap(rng, 0.5)

    # -- Condition: one phase-A waiter
    def k_cwait(self, A, c):
        cond = self.prims[c["p"]]
        t = c["t"]
        depth = c.get("d", 1)
        rec = {"h": c["h"], "a": A, "o": "wait", "t": t, "d": depth}
        try:
            with cond:
                if depth == 2:
                    cond.acquire()
                self.log({"h": c["h"], "a": A, "o": "atw", "c": _now()})
                c0 = _now()
                rec["c"] = c0
                v = cond.wait(t)
                r1 = _now()
                sl = cond._lock._semlock
                rec.update(r=r1, v=v, mine=bool(sl._is_mine()), cnt=sl._count())
                if depth == 2:
                    cond.release()
        except BaseException as e:
            rec["x"] = _exc(e)
        self.log(rec)

    # -- Condition: phase-B / drain notifier
    def k_cnotify(self, A, c):
        cond = self.prims[c["p"]]
        mode = c["mode"]
        k = c["k"]
        rec = {"h": c["h"], "a": A, "o": "notify", "mode": mode, "k": k, "sep": bool(c.get("sep")), "drain": bool(c.get("drain"))}
        try:
            c0 = _now()
            rec["c"] = c0
            if c.get("sep") and mode == "notify":
                l0 = None
                for _ in range(k):
                    with cond:
                        if l0 is None:
                            l0 = _now()
                        cond.notify()
                        l1 = _now()
            else:
                with cond:
                    l0 = _now()
                    if mode == "notify_all":
                        cond.notify_all()
                    else:
                        for _ in range(k):
                            cond.notify()
                    l1 = _now()
            rec.update(l=l0, e=l1, r=_now())
        except BaseException as e:
            rec["x"] = _exc(e)
        self.log(rec)

    # -- Condition: bursts
    def k_cburst_wait(self, A, c):
        cond = self.prims[c["p"]]
        rng = random.Random(_crc(c["seed"], A))
        for _ in range(c["n"]):
            if _now() > c["deadline"]:
                break
            t = rng.choice(c["ts"])
            wf = rng.random() < c.get("wf", 0.0)
            rec = {"h": c["h"], "a": A, "o": "wait_for" if wf else "wait", "t": t, "b": 1}
            try:
                with cond:
                    c0 = _now()
                    rec["c"] = c0
                    v = cond.wait_for(_false, t) if wf else cond.wait(t)
                    r1 = _now()
                    sl = cond._lock._semlock
                    rec.update(r=r1, v=bool(v), mine=bool(sl._is_mine()), cnt=sl._count())
            except BaseException as e:
                rec["x"] = _exc(e)
            self.log(rec)
            if "x" in rec:
                break
            if rng.random() < 0.2:
                self._gap(rng, 0.3)

    def k_cburst_notify(self, A, c):
        cond = self.prims[c["p"]]
        rng = random.Random(_crc(c["seed"], A))
        for _ in range(c["n"]):
            if _now() > c["deadline"]:
                break
            mode = "notify_all" if rng.random() < c.get("pall", 0.0) else "notify"
            rec = {"h": c["h"], "a": A, "o": "notify", "mode": mode, "k": 1, "b": 1}
            try:
                c0 = _now()
                rec["c"] = c0
                with cond:
                    l0 = _now()
                    if mode == "notify_all":
                        cond.notify_all()
                    else:
                        cond.notify()
                    l1 = _now()
                rec.update(l=l0, e=l1, r=_now())
            except BaseException as e:
                rec["x"] = _exc(e)
            self.log(rec)
            if "x" in rec:
                break
            u = rng.random()
            if u < c.get("ppause", 0.5):
                time.sleep(rng.choice(c["ts"]) * rng.uniform(0.2, 1.5))

    # -- Event: a short per-actor op list
    def k_ev_ops(self, A, c):
        ev = self.prims[c["p"]]
        rng = random.Random(_crc(c["seed"], A))
        d = c["at"] - _now()
        if d > 0:
            time.sleep(d)
        ops = c["ops"]
        for i, (op, arg) in enumerate(ops):
            if c.get("lastblock") and i == len(ops) - 1:
                self.log({"h": c["h"], "a": A, "o": "ev_lastwait", "c": _now()})
            rec = {"h": c["h"], "a": A, "o": op, "i": i}
            try:
                c0 = _now()
                rec["c"] = c0
                if op == "set":
                    v = ev.set()
                elif op == "clear":
                    v = ev.clear()
                elif op == "is_set":
                    v = ev.is_set()
                else:
                    rec["t"] = arg
                    v = ev.wait(arg)
                rec.update(r=_now(), v=v)
            except BaseException as e:
                rec.update(r=_now(), x=_exc(e))
            self.log(rec)
            if "x" in rec:
                break
            if rng.random() < 0.5:
                self._gap(rng, 0.7)


def child_main(pidx, conn, prims, casedir, nthreads):
    """Target of the LokyProcess children: `prims` are pickled copies."""
    try:
        sf = open(os.path.join(casedir, "cstacks.%d.txt" % pidx), "w")
        faulthandler.register(signal.SIGUSR2, file=sf, all_threads=True, chain=False)
    except Exception:
        pass
    host = Host(pidx, casedir, prims, nthreads)
    host.log({"h": -1, "a": "p%d" % pidx, "o": "child_ready", "pid": os.getpid(), "c": _now()})
    while True:
        try:
            msg = conn.recv()
        except (EOFError, OSError):
            os._exit(0)
        if msg is None:
            break
        host.queues[msg[0]].put(msg[1])
    host.stop()


# ---------------------------------------------------------------------------
# generator: the program of one case
# ---------------------------------------------------------------------------
def case_actors(spec):
    acts = ["p0t%d" % t for t in range(spec["T"])]
    for p in range(1, spec["P"] + 1):
        acts += ["p%dt%d" % (p, t) for t in range(spec["tpc"])]
    return acts


def _scope(actors):
    procs = [a.split("t")[0] for a in actors]
    if len(set(procs)) <= 1:
        return "threads"
    if len(set(procs)) == len(procs):
        return "processes"
    return "mixed"


def _tclass(ts):
    fin = [t for t in ts if t is not None]
    if not fin:
        return "none"
    if len(fin) == len(ts):
        return "finite"
    return "mixed"


def gen_event_history(rng, acts, ev):
    n = min(len(acts), rng.randint(2, 4))
    chosen = rng.sample(acts, n)
    flavour = rng.choice(["mixed", "mixed", "noclear", "waiters"])
    init = rng.choice(["clear", "set"]) if flavour == "mixed" else "clear"
    budget = 14 - 1  # the initial op counts
    per = {}
    lastblock = {}
    if flavour == "mixed":
        for a in chosen:
            k = rng.randint(1, max(1, budget // n))
            ops = []
            for _ in range(k):
                op = rng.choice(["set", "clear", "is_set", "wait", "wait"])
                ops.append([op, rng.choice(TINY) if op == "wait" else None])
            per[a] = ops
    else:
        budget -= 1  # the final set
        finisher = chosen[0]
        for a in chosen:
            k = rng.randint(1, max(1, budget // n))
            ops = []
            for i in range(k):
                if flavour == "waiters" and a != finisher:
                    op = rng.choice(["wait", "wait", "is_set"])
                else:
                    op = rng.choice(["set", "is_set", "wait", "is_set"]) if a != finisher else rng.choice(["set", "is_set", "is_set", "wait"])
                ops.append([op, rng.choice(TINY) if op == "wait" else None])
            if a != finisher and rng.random() < 0.8:
                ops[-1] = ["wait", rng.choice([None, None, 0.25, 0.5])]
                lastblock[a] = True
            per[a] = ops
        if not lastblock and len(chosen) > 1:
            a = chosen[1]
            per[a][-1] = ["wait", None]
            lastblock[a] = True
    return {"prim": "Event", "kind": "ev_" + flavour, "p": ev, "init": init, "per": per, "lastblock": lastblock, "final_set": flavour != "mixed", "actors": chosen}


def gen_cond_round(rng, acts, cname, kind, sizes):
    """kind: notify_k | notify_all | mixed_k | mixed_all | burst | usable_k | usable_all"""
    nA = len(acts)
    h = {"prim": "Condition", "kind": kind, "p": cname}
    if kind == "burst":
        nn = max(1, min(3, nA // 3)) if nA > 1 else 1
        order = rng.sample(acts, nA)
        notifiers = order[:nn]
        waiters = order[nn:nn + 8] or order[:1]
        if nA == 1:
            notifiers, waiters = order, []
        h.update(
            notifiers=notifiers, waiters=waiters, n=sizes["burst_n"], dur=sizes["burst_dur"], ts=rng.choice([TINY, TINY[:2], TINY[1:], [1e-5, 5e-3]]),
            pall=rng.choice([0.0, 0.0, 0.3, 1.0]), wf=rng.choice([0.0, 0.0, 0.2]), ppause=rng.choice([0.2, 0.6, 0.9]),
        )
        return h
    W = rng.randint(1, max(1, min(8, nA - 1)))
    order = rng.sample(acts, nA)
    waiters = order[:W]
    notifier = order[W] if nA > W else order[0]
    if nA == 1:
        return None
    clean = kind in ("notify_k", "notify_all", "usable_k", "usable_all")
    if clean:
        ts = [None] * W
    else:
        ts = [rng.choice([None, None] + TINY) for _ in range(W)]
        if all(t is None for t in ts):
            ts[rng.randrange(W)] = rng.choice(TINY)
    k = rng.randint(1, W + 1)
    depth = [1] * W
    if cname == "c1":  # RLock based: wait() must restore a recursion depth of 2
        depth = [2 if rng.random() < 0.25 else 1 for _ in range(W)]
    h.update(waiters=waiters, notifier=notifier, drainer=rng.choice(order[W:] or order[:1]), ts=ts, k=k, depth=depth,
             mode="notify_all" if kind.endswith("all") else "notify", sep=bool(rng.random() < 0.4), W=W)
    return h


def gen_program(spec):
    rng = random.Random(spec["seed"])
    acts = case_actors(spec)
    sz = spec["sizes"]
    prog = []
    if len(acts) >= 2:
        for prim, kind, style, md in (("lock", "Lock", "with", 1), ("lock", "Lock", "acq", 1), ("rlock", "RLock", rng.choice(["with", "acq"]), 3)):
            who = rng.sample(acts, rng.randint(2, min(len(acts), 8)))
            prog.append({"prim": kind, "kind": "lock_stress", "p": prim, "style": style, "maxdepth": md, "actors": who, "n": sz["lock_n"], "dur": sz["lock_dur"]})
        a, b = rng.sample(acts, 2)
        prog.append({"prim": "RLock", "kind": "rlock_proto", "p": "rlock", "owner": a, "other": b, "n": rng.randint(1, 4)})
        for prim, kind in (("sem", "Semaphore"), ("bsem", "BoundedSemaphore")):
            who = rng.sample(acts, rng.randint(2, min(len(acts), 8)))
            prog.append({"prim": kind, "kind": "sem_stress", "p": prim, "style": rng.choice(["with", "acq"]), "actors": who, "n": sz["sem_n_ops"], "dur": sz["lock_dur"], "limit": spec["sem_n"]})
    for prim, kind in (("sem", "Semaphore"), ("bsem", "BoundedSemaphore")):
        prog.append({"prim": kind, "kind": "overrelease", "p": prim, "actor": rng.choice(acts), "actor2": rng.choice(acts), "limit": spec["sem_n"]})
    conds = []
    for cname in ("c1", "c2"):
        seq = []
        for _ in range(sz["cond_reps"]):
            seq += ["notify_k", "notify_all", "mixed_k", "mixed_all", "burst", "usable_k", "usable_all"]
        conds.append([gen_cond_round(rng, acts, cname, kd, sz) for kd in seq])
    evs = [gen_event_history(rng, acts, "e%d" % (1 + i % 2)) for i in range(sz["ev_n"])] if len(acts) >= 2 else []
    # interleave the three streams, keeping each stream's own order
    streams = [s for s in conds + [evs] if s]
    head = list(prog)
    rng.shuffle(head)
    out = head
    while streams:
        s = rng.choice(streams)
        h = s.pop(0)
        if h is not None:
            out.append(h)
        if not s:
            streams.remove(s)
    for i, h in enumerate(out):
        h["h"] = i
    return out


# ---------------------------------------------------------------------------
# coordinator
# ---------------------------------------------------------------------------
class Abort(Exception):
    def __init__(self, clause, text):
        Exception.__init__(self, text)
        self.clause = clause
        self.text = text


class Coord:
    def __init__(self, casedir, spec):
        self.casedir = casedir
        self.spec = spec
        self.recs = {}  # h -> [rec]
        self.done = {}  # cmd id -> done record
        self.ready = set()
        self.tails = []
        self.nid = 0
        self.children = []
        self.conns = {}
        self.hf = os.open(os.path.join(casedir, "histories.jsonl"), os.O_WRONLY | os.O_CREAT | os.O_APPEND, 0o644)
        self.stackf = open(os.path.join(casedir, "driver_stacks.txt"), "w")

    # -- plumbing
    def start(self):
        from loky.backend import get_context

        spec = self.spec
        with open(os.path.join(self.casedir, "ctr.bin"), "wb") as f:
            f.write(b"\0" * 8192)
        ctx = get_context(spec["ctx"])
        self.ctx = ctx
        n = spec["sem_n"]
        self.prims = {
            "lock": ctx.Lock(), "rlock": ctx.RLock(), "sem": ctx.Semaphore(n), "bsem": ctx.BoundedSemaphore(n),
            "c1": ctx.Condition(), "c2": ctx.Condition(ctx.Lock()), "e1": ctx.Event(), "e2": ctx.Event(),
        }
        for p in range(0, spec["P"] + 1):
            path = os.path.join(self.casedir, "ops.%d.jsonl" % p)
            os.close(os.open(path, os.O_WRONLY | os.O_CREAT | os.O_APPEND, 0o644))
            self.tails.append([os.open(path, os.O_RDONLY), b""])
        self.host = Host(0, self.casedir, self.prims, spec["T"])
        for p in range(1, spec["P"] + 1):
            a, b = ctx.Pipe()
            pr = ctx.Process(target=child_main, args=(p, b, self.prims, self.casedir, spec["tpc"]))
            pr.start()
            b.close()
            self.children.append(pr)
            self.conns[p] = a
        if not self.wait_until(lambda: len(self.ready) == spec["P"], 60.0):
            raise Abort("harness_children_not_ready", "children did not start")

    def poll(self):
        for st in self.tails:
            while True:
                data = os.read(st[0], 1 << 18)
                if not data:
                    break
                st[1] += data
            if b"\n" in st[1]:
                lines = st[1].split(b"\n")
                st[1] = lines.pop()
                for ln in lines:
                    if not ln:
                        continue
                    rec = json.loads(ln)
                    o = rec["o"]
                    if o == "done":
                        self.done[rec["id"]] = rec
                    elif o == "child_ready":
                        self.ready.add(rec["a"])
                    else:
                        self.recs.setdefault(rec["h"], []).append(rec)

    def wait_until(self, pred, bound):
        """bounded poll; remembers the longest interval between two of its own
        iterations (a direct measure of whether this case was starved of CPU)"""
        t = _now()
        dl = t + bound
        self.max_gap = 0.0
        while True:
            self.poll()
            if pred():
                return True
            n = _now()
            if n - t > self.max_gap:
                self.max_gap = n - t
            t = n
            if n > dl:
                return False
            time.sleep(0.0004)

    def send(self, actor, cmd):
        self.nid += 1
        cmd = dict(cmd)
        cmd["id"] = self.nid
        p, t = actor[1:].split("t")
        p, t = int(p), int(t)
        if p == 0:
            self.host.queues[t].put(cmd)
        else:
            self.conns[p].send((t, cmd))
        return self.nid

    def all_done(self, ids):
        return all(i in self.done for i in ids)

    def wait_done(self, ids, bound, clause, what):
        if not self.wait_until(lambda: self.all_done(ids), bound):
            raise Abort(clause, "%s: %d of %d actor command(s) did not complete within %.0f s" % (what, sum(1 for i in ids if i not in self.done), len(ids), bound))

    def hrecs(self, h, op=None):
        r = self.recs.get(h, [])
        return r if op is None else [x for x in r if x["o"] == op]

    def finish_history(self, H, issues, extra=None):
        meta = dict(H)
        meta["issues"] = issues
        meta["t1"] = _now()
        if extra:
            meta.update(extra)
        os.write(self.hf, (_dumps(meta) + "\n").encode())

    def cond_values(self, cond):
        return {
            "sleeping": cond._sleeping_count._semlock._get_value(),
            "woken": cond._woken_count._semlock._get_value(),
            "wait_sem": cond._wait_semaphore._semlock._get_value(),
        }

    # -- histories
    def run(self):
        prog = gen_program(self.spec)
        slot = 0
        for H in prog:
            faulthandler.dump_traceback_later(WATCHDOG, exit=True, file=self.stackf)
            H["t0"] = _now()
            H["T"], H["P"] = self.spec["T"], self.spec["P"]
            if H["kind"] == "lock_stress":
                H["slot"] = slot
                slot += 1
            self.cur = H
            self.cur_issues = []
            try:
                if H["prim"] == "Condition":
                    fn = self.h_cburst if H["kind"] == "burst" else self.h_cround
                elif H["prim"] == "Event":
                    fn = self.h_event
                else:
                    fn = getattr(self, "h_" + H["kind"])
                fn(H)
            except Abort as e:
                self.abort(H, e)
                return 3
        faulthandler.cancel_dump_traceback_later()
        return 0

    def abort(self, H, e):
        try:
            faulthandler.dump_traceback(file=self.stackf, all_threads=True)
            self.stackf.flush()
        except Exception:
            pass
        for pr in self.children:
            try:
                os.kill(pr.pid, signal.SIGUSR2)
            except Exception:
                pass
        time.sleep(0.4)
        stacks = {}
        for fn in sorted(os.listdir(self.casedir)):
            if fn.startswith("cstacks.") or fn == "driver_stacks.txt":
                try:
                    with open(os.path.join(self.casedir, fn)) as f:
                        stacks[fn] = f.read()[-6000:]
                except OSError:
                    pass
        try:
            load = os.getloadavg()[0]
        except OSError:
            load = -1.0
        self.poll()
        self.finish_history(H, list(getattr(self, "cur_issues", [])) + [{"clause": e.clause, "text": e.text, "liveness": True, "load1": load, "max_poll_gap": getattr(self, "max_gap", 0.0), "stacks": stacks}], {"aborted": True})

    def h_lock_stress(self, H):
        dl = _now() + H["dur"]
        ids = [self.send(a, {"cmd": "lock_stress", "h": H["h"], "p": H["p"], "style": H["style"], "maxdepth": H["maxdepth"], "n": H["n"], "slot": H["slot"],
                             "seed": self.spec["seed"] * 1000 + H["h"], "deadline": dl}) for a in H["actors"]]
        self.wait_done(ids, H["dur"] + 2 * BOUND, "lost_wakeup_or_deadlock", "%s stress" % H["prim"])
        final = struct.unpack_from("<q", self.host.mm, H["slot"] * 8)[0]
        self.finish_history(H, [], {"final_counter": final})

    def h_sem_stress(self, H):
        dl = _now() + H["dur"]
        ids = [self.send(a, {"cmd": "sem_stress", "h": H["h"], "p": H["p"], "style": H["style"], "n": H["n"], "seed": self.spec["seed"] * 1000 + H["h"], "deadline": dl}) for a in H["actors"]]
        self.wait_done(ids, H["dur"] + 2 * BOUND, "lost_wakeup_or_deadlock", "%s stress" % H["prim"])
        self.finish_history(H, [], {"value_after": self.prims[H["p"]]._semlock._get_value()})

    def step(self, H, actor, meth, args, tag, bound=BOUND + 5):
        i = self.send(actor, {"cmd": "op", "h": H["h"], "p": H["p"], "m": meth, "args": args, "tag": tag})
        self.wait_done([i], bound, "lost_wakeup_or_deadlock", "%s protocol step %s" % (H["prim"], tag))

    def h_rlock_proto(self, H):
        a, b, n = H["owner"], H["other"], H["n"]
        for i in range(n):
            self.step(H, a, "acquire", [True, 3.0], "owner_acquire_%d" % i)
        self.step(H, b, "acquire", [False], "other_try_while_held")
        self.step(H, b, "release", [], "other_release")
        for i in range(n - 1):
            self.step(H, a, "release", [], "owner_release_%d" % i)
        self.step(H, b, "acquire", [False], "other_try_before_last_release")
        self.step(H, a, "release", [], "owner_release_last")
        self.step(H, b, "acquire", [True, 5.0], "other_acquire_after")
        self.step(H, b, "release", [], "other_release_own")
        self.finish_history(H, [])

    def h_overrelease(self, H):
        a, b = H["actor"], H["actor2"]
        self.step(H, a, "get_value", [], "value_at_rest")
        self.step(H, b, "acquire", [True, 3.0], "acquire_one")
        self.step(H, a, "release", [], "release_one")
        self.step(H, a, "release", [], "release_beyond_initial")
        self.step(H, b, "get_value", [], "value_after")
        v = self.prims[H["p"]]._semlock._get_value()
        while v > H["limit"]:  # restore a plain semaphore for later histories
            self.step(H, a, "acquire", [False], "restore")
            v -= 1
        self.finish_history(H, [])

    def h_cround(self, H):
        h = H["h"]
        cond = self.prims[H["p"]]
        issues = self.cur_issues
        W = H["W"]
        wids = [self.send(a, {"cmd": "cwait", "h": h, "p": H["p"], "t": t, "d": d}) for a, t, d in zip(H["waiters"], H["ts"], H["depth"])]
        if not self.wait_until(lambda: len(self.hrecs(h, "atw")) >= W or sum(1 for x in self.hrecs(h, "wait") if "x" in x), BOUND):
            raise Abort("condition_unusable", "phase A: only %d of %d waiters could take the condition's lock and reach wait() within %.0f s although nobody else uses it" % (len(self.hrecs(h, "atw")), W, BOUND))
        H["seen_atw_t"] = _now()
        nid = self.send(H["notifier"], {"cmd": "cnotify", "h": h, "p": H["p"], "mode": H["mode"], "k": H["k"], "sep": H["sep"]})
        self.wait_done([nid], BOUND, "lost_wakeup_or_deadlock", "phase B: %s by %s" % (H["mode"], H["notifier"]))
        n_none = sum(1 for t in H["ts"] if t is None)
        if H["mode"] == "notify_all":
            need_true = n_none
            need_done = W if all(t is None for t in H["ts"]) else None
        else:
            # the statement: notify "does wake one if some waiter's timeout is not expiring". Waiters without
            # a timeout cannot expire, so k notifies issued when n_none of them are registered sleepers must
            # produce at least min(k, n_none) wake-ups, also when other waiters time out concurrently.
            need_true = min(H["k"], W) if n_none == W else min(H["k"], n_none)
            need_done = None
        mixed = H["mode"] != "notify_all" and 0 < n_none < W
        H["need_true"] = need_true

        def trues():
            return sum(1 for x in self.hrecs(h, "wait") if x.get("v") is True)

        ok = self.wait_until(lambda: trues() >= need_true, BOUND)
        if not ok:
            try:
                load = os.getloadavg()[0]
            except OSError:
                load = -1.0
            issues.append({"clause": "notify_all_missed_waiter" if H["mode"] == "notify_all" else ("notify_lost_with_racing_timeout" if mixed else "notify_did_not_wake"), "liveness": True, "load1": load, "max_poll_gap": self.max_gap,
                           "text": "phase B (%s x%d, %d waiters, none with a finite timeout among the required ones): only %d wait() returned True within %.0f s, %d required"
                           % (H["mode"], H["k"], W, trues(), BOUND, need_true)})
        time.sleep(random.Random(h).uniform(0.001, 0.004))  # let a surplus wake-up show itself
        self.poll()
        H["drain_t"] = _now()
        did = self.send(H["drainer"], {"cmd": "cnotify", "h": h, "p": H["p"], "mode": "notify_all", "k": 1, "drain": True})
        self.wait_done([did], BOUND, "lost_wakeup_or_deadlock", "phase C: draining notify_all by %s" % H["drainer"])
        self.wait_done(wids, BOUND, "notify_all_missed_waiter", "phase C: waiters still asleep after a notify_all issued when all %d were registered sleepers" % W)
        self.finish_history(H, issues, {"quiesce": self.cond_values(cond)})

    def h_cburst(self, H):
        h = H["h"]
        dl = _now() + H["dur"]
        sd = self.spec["seed"] * 1000 + h
        ids = [self.send(a, {"cmd": "cburst_wait", "h": h, "p": H["p"], "n": H["n"], "ts": H["ts"], "wf": H["wf"], "seed": sd, "deadline": dl}) for a in H["waiters"]]
        ids += [self.send(a, {"cmd": "cburst_notify", "h": h, "p": H["p"], "n": H["n"], "ts": H["ts"], "pall": H["pall"], "ppause": H["ppause"], "seed": sd, "deadline": dl}) for a in H["notifiers"]]
        self.wait_done(ids, H["dur"] + BOUND, "lost_wakeup_or_deadlock", "burst of timed waits and notifies (every wait has a finite timeout)")
        self.finish_history(H, [], {"quiesce": self.cond_values(self.prims[H["p"]])})

    def h_event(self, H):
        h = H["h"]
        ev = self.prims[H["p"]]
        finisher = H["actors"][0]
        i0 = self.send(finisher, {"cmd": "ev_ops", "h": h, "p": H["p"], "ops": [[H["init"], None]], "at": 0, "seed": 0})
        self.wait_done([i0], BOUND, "lost_wakeup_or_deadlock", "Event initial %s" % H["init"])
        at = _now() + 0.002
        rng = random.Random(self.spec["seed"] * 1000 + h)
        ids = {}
        for a in H["actors"]:
            ids[a] = self.send(a, {"cmd": "ev_ops", "h": h, "p": H["p"], "ops": H["per"][a], "at": at + rng.uniform(0, 4e-4), "seed": self.spec["seed"] * 1000 + h, "lastblock": bool(H["lastblock"].get(a))})
        if H["final_set"]:
            blockers = [a for a in H["actors"] if H["lastblock"].get(a)]
            free = [ids[a] for a in H["actors"] if a not in blockers]

            def parked():
                lw = {x["a"] for x in self.hrecs(h, "ev_lastwait")}
                return self.all_done(free) and all((a in lw) or ids[a] in self.done for a in blockers)

            if not self.wait_until(parked, BOUND):
                raise Abort("lost_wakeup_or_deadlock", "Event history: actors did not reach their last wait within %.0f s" % BOUND)
            H["final_set_t"] = _now()
            fi = self.send(finisher, {"cmd": "ev_ops", "h": h, "p": H["p"], "ops": [["set", None]], "at": 0, "seed": 1})
            self.wait_done([fi], BOUND, "lost_wakeup_or_deadlock", "Event final set()")
        self.wait_done(list(ids.values()), BOUND, "event_wait_not_woken_by_set" if H["final_set"] else "lost_wakeup_or_deadlock",
                       "Event history: wait() still blocked %.0f s after a set() that no clear() follows" % BOUND)
        q = self.cond_values(ev._cond)
        q["flag"] = ev._flag._semlock._get_value()
        self.finish_history(H, [], {"quiesce": q})

    def shutdown(self):
        for p, c in self.conns.items():
            try:
                c.send(None)
            except Exception:
                pass
        self.host.stop()
        for pr in self.children:
            pr.join(5.0)
            if pr.is_alive():
                pr.kill()

    def kill_children(self):
        for pr in self.children:
            try:
                os.kill(pr.pid, signal.SIGKILL)
            except Exception:
                pass


def driver_main(casedir=None):
    casedir = casedir or sys.argv[1]
    with open(os.path.join(casedir, "spec.json")) as f:
        spec = json.load(f)
    co = Coord(casedir, spec)
    faulthandler.dump_traceback_later(WATCHDOG + 60, exit=True, file=co.stackf)
    rc = 0
    try:
        co.start()
        rc = co.run()
    except Abort as e:
        co.abort({"h": -1, "prim": "harness", "kind": "start", "t0": _now()}, e)
        rc = 3
    if rc == 0:
        co.shutdown()
        faulthandler.cancel_dump_traceback_later()
        with open(os.path.join(casedir, "driver_done"), "w") as f:
            f.write("ok\n")
        return 0
    co.kill_children()
    sys.stdout.flush()
    os._exit(rc)


# ---------------------------------------------------------------------------
# oracles (pure functions over the recorded files)
# ---------------------------------------------------------------------------
class CheckerTimeout(Exception):
    pass


def linearizable(ops, timeout=5.0):
    """WGL-style search against a one-bit register.

    ops: [(call_t, ret_t, kind, value)], kind in set/clear/is_set/wait.
    set/clear take effect at a point inside their interval; is_set->b needs a
    point with bit == b; wait->True a point with the bit set, wait->False a
    point with the bit clear (the timing side-condition of a False is checked
    separately).  Returns True / False / None (checker timeout)."""
    n = len(ops)
    if n == 0:
        return True
    full = (1 << n) - 1
    dl = time.monotonic() + timeout
    seen = set()

    def step(i, bit):
        k, v = ops[i][2], ops[i][3]
        if k == "set":
            return 1
        if k == "clear":
            return 0
        want = 1 if v else 0
        return bit if bit == want else None

    def rec(mask, bit):
        if mask == full:
            return True
        key = (mask, bit)
        if key in seen:
            return False
        seen.add(key)
        if time.monotonic() > dl:
            raise CheckerTimeout()
        todo = [i for i in range(n) if not (mask >> i) & 1]
        min_r = min(ops[i][1] for i in todo)
        for i in todo:
            if ops[i][0] <= min_r:  # nothing unlinearized finished before i was called
                nb = step(i, bit)
                if nb is not None and rec(mask | (1 << i), nb):
                    return True
        return False

    try:
        return rec(0, 0) or rec(0, 1)
    except CheckerTimeout:
        return None


def _x_clause(x):
    return "internal_assertion" if x.get("t") == "AssertionError" else "exception"


def _issue(clause, text, **kw):
    d = {"clause": clause, "text": text}
    d.update(kw)
    return d


def _exceptions(recs, allowed_tags=()):
    out = []
    for r in recs:
        if "x" in r and r.get("tag") not in allowed_tags:
            out.append(_issue(_x_clause(r["x"]), "%s by %s raised %s: %s\n%s" % (r["o"], r["a"], r["x"]["t"], r["x"]["m"], r["x"].get("tb", "")[-900:])))
    return out


def _contended_holds(holds, look):
    """number of acquires that were CALLED while a different actor's hold was in progress"""
    import bisect

    hs = sorted(holds, key=lambda r: r["ta"])
    starts = [r["ta"] for r in hs]
    n = 0
    for r in holds:
        j = bisect.bisect_left(starts, r["c"])
        for y in hs[max(0, j - look):j]:
            if y["a"] != r["a"] and y["ta"] < r["c"] < y["tb"]:
                n += 1
                break
    return n


def check_lock_stress(H, recs, sem=False):
    """hold records: a = actor, c = acquire called, ta = taken after acquire
    returned, tb = taken before release was called"""
    issues, inconc = [], []
    holds = [r for r in recs if r["o"] == "hold"]
    issues += _exceptions(recs)
    if any(r.get("starved") for r in holds):
        inconc.append("acquire_timeout")
    if any(r.get("reacq_fail") for r in holds):
        issues.append(_issue("rlock_not_reentrant", "the owner of the RLock could not re-acquire it within 2 s"))
    full = [r for r in holds if r.get("ta") is not None and r.get("tb") is not None]
    stats = {"ops": sum(2 * r.get("d", 1) for r in full), "holds": len(full)}
    if sem:
        ev = []
        for r in full:
            ev.append((r["ta"], 1))
            ev.append((r["tb"], 0))
        ev.sort()  # at equal times the end (0) sorts first: conservative
        cur = mx = 0
        for _, k in ev:
            cur += 1 if k else -1
            mx = max(mx, cur)
        stats["max_overlap"] = mx
        if mx > H["limit"]:
            issues.append(_issue("semaphore_admitted_too_many", "%s(%d): %d hold intervals (taken after acquire returned / before release was called) overlap" % (H["prim"], H["limit"], mx)))
        stats["contended"] = _contended_holds(full, H["limit"] + 3)
        stats["sig"] = (H["style"], min(mx, H["limit"] + 1))
        return issues, inconc, stats
    # mutual exclusion: overlap of hold intervals of different actors
    hs = sorted(full, key=lambda r: r["ta"])
    best = []  # up to two (tb, actor, rec) with distinct actors, largest tb first
    for r in hs:
        for b, ac, other in best:
            if ac != r["a"] and b > r["ta"]:
                issues.append(_issue("mutual_exclusion", "%s held by %s during [%.6f, %.6f] and by %s from %.6f (both intervals lie inside the real holds)" % (H["prim"], ac, other["ta"], b, r["a"], r["ta"])))
                break
        if issues and issues[-1]["clause"] == "mutual_exclusion":
            break
        best.append((r["tb"], r["a"], r))
        best.sort(key=lambda t: -t[0])
        nb = []
        for t in best:
            if all(t[1] != u[1] for u in nb):
                nb.append(t)
        best = nb[:2]
    if not any("x" in r for r in recs) and not H.get("aborted"):
        vs = [r["v"] for r in full]
        if len(set(vs)) != len(vs) or H.get("final_counter") != len(vs):
            issues.append(_issue("lost_update", "%s: %d increments made inside the critical section, shared counter ends at %s, %d value(s) read twice: two holders at once" % (H["prim"], len(vs), H.get("final_counter"), len(vs) - len(set(vs)))))
    stats["contended"] = _contended_holds(full, 3)
    stats["sig"] = (H["style"], H.get("maxdepth", 1))
    return issues, inconc, stats


def check_rlock_proto(H, recs):
    issues = _exceptions(recs, allowed_tags=("other_release",))
    stats = {"ops": len(recs), "contended": 1 if len(recs) >= 4 else 0, "sig": (H["n"],)}
    if issues:
        return issues, [], stats
    for r in recs:
        tag = r.get("tag") or ""
        if tag.startswith("owner_acquire") and r.get("v") is not True:
            issues.append(_issue("rlock_not_reentrant", "owner %s: acquire #%s returned %r" % (r["a"], tag.rsplit("_", 1)[1], r.get("v"))))
        elif tag == "other_try_while_held" and r.get("v") is not False:
            issues.append(_issue("mutual_exclusion", "RLock held %d time(s) by %s, yet acquire(False) by %s returned %r" % (H["n"], H["owner"], r["a"], r.get("v"))))
        elif tag == "other_release" and "x" not in r:
            issues.append(_issue("rlock_release_by_non_owner_accepted", "release() of an RLock held by %s did not raise when called by %s" % (H["owner"], r["a"])))
        elif tag == "other_try_before_last_release" and r.get("v") is not False:
            issues.append(_issue("rlock_released_early", "RLock acquired %d times and released %d times by %s, yet acquire(False) by %s returned %r" % (H["n"], H["n"] - 1, H["owner"], r["a"], r.get("v"))))
        elif tag == "other_acquire_after" and r.get("v") is not True:
            issues.append(_issue("rlock_not_released", "after %d releases by the owner, acquire(timeout=5) by %s returned %r" % (H["n"], r["a"], r.get("v"))))
        if issues:
            break
    return issues, [], stats


def check_overrelease(H, recs):
    stats = {"ops": len(recs), "contended": 0, "sig": ()}
    issues = _exceptions(recs, allowed_tags=("release_beyond_initial",))
    by = {r.get("tag"): r for r in recs}
    if issues:
        return issues, [], stats
    rest = by.get("value_at_rest")
    if rest is None or rest.get("v") != H["limit"]:
        return [], ["semaphore_not_at_rest"], stats
    r = by.get("release_beyond_initial")
    if r is None:
        return [], ["incomplete"], stats
    if H["prim"] == "BoundedSemaphore":
        if "x" not in r or r["x"]["t"] != "ValueError":
            issues.append(_issue("bounded_semaphore_over_release_accepted", "BoundedSemaphore(%d) at its initial value: release() by %s %s" % (H["limit"], r["a"], "raised " + r["x"]["t"] if "x" in r else "did not raise")))
    elif "x" in r:
        issues.append(_issue("semaphore_release_raised", "plain Semaphore(%d): release() beyond the initial value raised %s" % (H["limit"], r["x"]["t"])))
    stats["sig"] = ("raised" if "x" in r else "accepted",)
    return issues, [], stats


def _check_waits(waits, issues, prim="Condition"):
    nt = nf = 0
    for w in waits:
        if "r" not in w:
            continue
        if w["v"]:
            nt += 1
            if w["o"] == "wait_for":
                issues.append(_issue("wait_for_true_with_false_predicate", "wait_for(lambda: False, %r) returned a true value" % w["t"]))
        else:
            nf += 1
            if w["t"] is None:
                issues.append(_issue("wait_false_without_timeout", "%s by %s: wait(None) returned %r" % (prim, w["a"], w["v"])))
            elif w["r"] - w["c"] < w["t"] - SLACK:
                issues.append(_issue("wait_false_before_timeout", "%s by %s: %s(%g) returned False after %.6f s" % (prim, w["a"], w["o"], w["t"], w["r"] - w["c"])))
        if w.get("mine") is False:
            issues.append(_issue("wait_returned_without_lock", "%s by %s: after wait(%r) returned %r the caller does not own the condition's lock (_is_mine() false)" % (prim, w["a"], w["t"], w["v"])))
        elif "d" in w and w.get("cnt") != w["d"]:
            issues.append(_issue("wait_lock_depth_not_restored", "%s by %s: lock held %d deep before wait, %r after" % (prim, w["a"], w["d"], w.get("cnt"))))
    return nt, nf


def _check_quiesce(H, issues, prim):
    q = H.get("quiesce")
    if not q:
        return
    if q["sleeping"] - q["woken"] != 0 or q["wait_sem"] != 0:
        issues.append(_issue("condition_counters_not_rezeroed", "%s at quiescence (nobody waiting): _sleeping_count=%d _woken_count=%d _wait_semaphore=%d" % (prim, q["sleeping"], q["woken"], q["wait_sem"])))
    if "flag" in q and q["flag"] not in (0, 1):
        issues.append(_issue("event_flag_overcount", "Event._flag semaphore has value %d" % q["flag"]))


def check_cround(H, recs):
    issues, inconc = [], []
    issues += _exceptions(recs)
    waits = [r for r in recs if r["o"] == "wait"]
    nots = [r for r in recs if r["o"] == "notify" and not r.get("drain")]
    nt, nf = _check_waits(waits, issues)
    drain_t = H.get("drain_t")
    before = [w for w in waits if w.get("v") is True and (drain_t is None or w["r"] < drain_t)]
    if H["mode"] == "notify" and len(before) > H["k"]:
        issues.append(_issue("notify_woke_too_many", "%d x notify() with %d registered sleepers: %d wait() returned True before the draining notify_all was even requested (%s)"
                             % (H["k"], H["W"], len(before), ", ".join("%s@%.6f" % (w["a"], w["r"]) for w in before))))
    _check_quiesce(H, issues, "Condition")
    contended = 0
    for n in nots:
        if "l" in n and any(w["a"] != n["a"] and "r" in w and w["c"] < n["l"] < w["r"] for w in waits):
            contended = 1
    stats = {"ops": len(waits) + sum((r["k"] if r["mode"] == "notify" else 1) for r in recs if r["o"] == "notify"), "waits_true": nt, "waits_false": nf,
             "notifies": sum((r["k"] if r["mode"] == "notify" else 1) for r in recs if r["o"] == "notify"), "contended": contended,
             "sig": (H["mode"], H["k"], bool(H.get("sep")), len(before), nf)}
    return issues, inconc, stats


def check_cburst(H, recs):
    issues = _exceptions(recs)[:3]
    waits = [r for r in recs if r["o"] in ("wait", "wait_for")]
    nots = [r for r in recs if r["o"] == "notify"]
    wi = []
    nt, nf = _check_waits(waits, wi)
    issues += wi[:3]
    if H["pall"] == 0 and nt > len(nots):
        issues.append(_issue("notify_woke_too_many", "burst with notify() only: %d notify calls, %d waits returned True" % (len(nots), nt)))
    _check_quiesce(H, issues, "Condition")
    # contention: a notify ran (lock held) while another actor was inside wait
    contended = 0
    if waits and nots:
        import bisect

        ws = sorted((w for w in waits if "r" in w), key=lambda w: w["c"])
        cs = [w["c"] for w in ws]
        for n in nots:
            if "l" not in n:
                continue
            j = bisect.bisect_left(cs, n["l"])
            if any(w["r"] > n["l"] and w["a"] != n["a"] for w in ws[max(0, j - 10):j]):
                contended += 1
    stats = {"ops": len(waits) + len(nots), "waits_true": nt, "waits_false": nf, "notifies": len(nots), "contended": contended,
             "sig": (H["pall"], H["wf"], len(H["ts"]), min(nt, 3), min(contended, 3))}
    return issues, [], stats


def check_event(H, recs, timeout=5.0):
    issues, inconc = [], []
    issues += _exceptions(recs)
    ops = [r for r in recs if r["o"] in ("set", "clear", "is_set", "wait") and "r" in r and "x" not in r]
    clears = [r for r in ops if r["o"] == "clear"]
    sets = [r for r in ops if r["o"] == "set"]
    nt = nf = 0
    for w in ops:
        if w["o"] != "wait":
            continue
        if w["v"]:
            nt += 1
            continue
        nf += 1
        t = w.get("t")
        late = t is not None and (w["r"] - w["c"]) >= t - SLACK
        raced = any(c["c"] < w["r"] and c["r"] > w["c"] for c in clears)
        if not late and not raced:
            issues.append(_issue("event_wait_false_before_timeout" if t is not None else "event_wait_false_while_set",
                                 "Event.wait(%r) by %s returned False after %.6f s and no clear() overlaps the call" % (t, w["a"], w["r"] - w["c"])))
        for s in sets:
            if s["r"] < w["c"] and not any(c["r"] > s["c"] for c in clears):
                issues.append(_issue("event_wait_false_after_set", "set() by %s returned at %.6f, no clear() ran after it started, yet wait(%r) by %s called at %.6f returned False" % (s["a"], s["r"], t, w["a"], w["c"])))
                break
    lin = linearizable([(r["c"], r["r"], r["o"], r.get("v")) for r in ops], timeout)
    if lin is None:
        inconc.append("checker_timeout")
    elif lin is False:
        issues.append(_issue("event_not_linearizable", "no order of the %d operations, each at a point inside its call interval, is a run of a one-bit event" % len(ops)))
    _check_quiesce(H, issues, "Event._cond")
    contended = 0
    for i, a in enumerate(ops):
        for b in ops[i + 1:]:
            if a["a"] != b["a"] and a["c"] < b["r"] and b["c"] < a["r"]:
                contended = 1
                break
        if contended:
            break
    sig = tuple(sorted("%s:%s" % (r["o"], r.get("v")) for r in ops))
    stats = {"ops": len(ops), "waits_true": nt, "waits_false": nf, "contended": contended, "sig": sig, "linearized": 1 if lin else 0,
             "checker_timeout": 1 if lin is None else 0}
    return issues, inconc, stats


def evaluate_case(casedir, checker_timeout=5.0):
    """-> list of per-history results: {H, recs, issues, inconc, stats, scope, tclass}"""
    metas = {}
    hp = os.path.join(casedir, "histories.jsonl")
    if os.path.exists(hp):
        with open(hp) as f:
            for ln in f:
                try:
                    m = json.loads(ln)
                except ValueError:
                    continue
                metas[m["h"]] = m
    recs = {}
    escaped = {}
    for fn in sorted(os.listdir(casedir)):
        if fn.startswith("ops.") and fn.endswith(".jsonl"):
            with open(os.path.join(casedir, fn)) as f:
                for ln in f:
                    try:
                        r = json.loads(ln)
                    except ValueError:
                        continue
                    if r["o"] == "done":
                        if "x" in r:
                            escaped.setdefault(r["h"], []).append(r)
                        continue
                    if r["o"] in ("child_ready", "atw", "ev_lastwait"):
                        if r["o"] != "child_ready":
                            recs.setdefault(r["h"], [])
                        continue
                    recs.setdefault(r["h"], []).append(r)
    out = []
    for h in sorted(metas):
        H = metas[h]
        R = sorted(recs.get(h, []), key=lambda r: r.get("c", 0))
        issues = list(H.get("issues", []))
        inconc = []
        stats = {"ops": 0, "contended": 0, "sig": ()}
        try:
            k = H["kind"]
            if k == "lock_stress":
                i2, inconc, stats = check_lock_stress(H, R)
            elif k == "sem_stress":
                i2, inconc, stats = check_lock_stress(H, R, sem=True)
            elif k == "rlock_proto":
                i2, inconc, stats = check_rlock_proto(H, R)
            elif k == "overrelease":
                i2, inconc, stats = check_overrelease(H, R)
            elif H["prim"] == "Condition" and k == "burst":
                i2, inconc, stats = check_cburst(H, R)
            elif H["prim"] == "Condition":
                i2, inconc, stats = check_cround(H, R)
            elif H["prim"] == "Event":
                i2, inconc, stats = check_event(H, R, checker_timeout)
            else:
                i2 = []
            issues += i2
        except Exception:
            inconc.append("oracle_error")
            issues.append(_issue("harness_oracle_error", traceback.format_exc()[-1500:], harness=True))
        for r in escaped.get(h, []):
            issues.append(_issue(_x_clause(r["x"]), "escaped from an actor command of %s: %s: %s\n%s" % (r["a"], r["x"]["t"], r["x"]["m"], r["x"]["tb"][-900:])))
        actors = sorted({r["a"] for r in R})
        if len(actors) < 2:  # aborted before anything was recorded: the planned participants
            planned = list(H.get("actors") or []) + list(H.get("waiters") or []) + list(H.get("notifiers") or [])
            planned += [H[k] for k in ("notifier", "owner", "other", "actor", "actor2") if H.get(k)]
            actors = sorted(set(actors) | set(planned))
        ts = H.get("ts") or []
        if H["prim"] == "Event":
            ts = [r.get("t") for r in R if r["o"] == "wait"]
        out.append({"H": H, "recs": R, "issues": issues, "inconc": inconc, "stats": stats, "scope": _scope(actors) if actors else "none",
                    "tclass": _tclass(ts) if ts else "n/a", "actors": actors})
    return out
