"""Subjects for C16 (wrap_non_picklable_objects is behaviour-preserving).

A *recipe* is plain text: the source of a factory ``make()`` that builds the
object (function / instance / class) inside a namespace whose ``__name__`` is
not importable, plus the operations (calls, attribute reads, method calls) that
will be applied to both the bare object and its wrapper.  Everything is derived
from a ``random.Random`` so an example is reproducible from (VERIF_SEED, index)
and can be replayed from the recipe alone.

Nothing in this module decides the property; the oracle lives in
harness/checks/C16.py.  The only loky-facing code here is the child side of the
cross-process leg (``xproc_child`` / ``probe`` / ``echo``), which merely records
what it saw.
"""
import ast
import builtins
import collections
import datetime
import fractions
import functools
import hashlib
import json
import math
import operator
import os
import random
import sys
import warnings

NS_NAME = "c16_dyn_ns"  # never present in sys.modules -> nothing built here is importable

# Names generated as data attributes.  Deliberately contains names that start
# with an underscore and names that look like the wrapper's own vocabulary; it
# does NOT contain the two slots the wrapper itself owns (_obj, _keep_wrapper)
# nor names every Python object defines (__doc__, __module__, __class__, ...).
ATTR_POOL = [
    "x",
    "y",
    "val",
    "data",
    "_x",
    "_private",
    "_keep",
    "keep_wrapper",
    "obj",
    "_o",
    "_wrapper",
    "cfg",
    "name_",
    "items_",
    "__custom__",
    "_obj2",
    "_kw",
]
CLASS_NAMES = ["Thing", "Node", "_Hidden", "Cfg", "Acc"]

KINDS = [
    "lambda",
    "closure",
    "nested_def",
    "recursive",
    "sig_func",
    "dyn_toplevel",
    "callable_instance",
    "noncallable_instance",
    "class_plain",
    "class_callable",
    "importable_callable",
    "importable_instance",
    "importable_class",
]
KIND_WEIGHTS = [10, 10, 8, 8, 10, 5, 12, 12, 12, 5, 3, 3, 3]

EVAL_NS = {
    "operator": operator,
    "math": math,
    "functools": functools,
    "fractions": fractions,
    "collections": collections,
    "datetime": datetime,
    "__builtins__": builtins,
}


# --------------------------------------------------------------------------- #
# applying operations (shared by the in-process oracle and the worker side)


def canon(fn):
    """Outcome of a thunk in a comparable, printable form.  Values are plain
    data by construction of the generator, so type name + repr is an exact
    identity; exceptions compare by type."""
    try:
        v = fn()
    except Exception as e:  # noqa: BLE001 - the type *is* the observation
        return "E:" + type(e).__name__
    return "V:%s:%r" % (type(v).__name__, v)


def apply_op(o, op):
    t = op[0]
    if t == "call":
        return canon(lambda: o(*op[1], **op[2]))
    if t == "attr":
        return canon(lambda: getattr(o, op[1]))
    if t == "meth":
        return canon(lambda: getattr(o, op[1])(*op[2], **op[3]))
    raise ValueError(op)


def apply_ops(o, ops, skip_calls=False):
    out = []
    for op in ops:
        if skip_calls and op[0] == "call":
            out.append(None)
        else:
            out.append(apply_op(o, op))
    return out


def op_text(op):
    if op[0] == "call":
        return "obj(*%r, **%r)" % (op[1], op[2])
    if op[0] == "attr":
        return "obj.%s" % op[1]
    return "obj.%s(*%r, **%r)" % (op[1], op[2], op[3])


# --------------------------------------------------------------------------- #
# a recipe made executable


class Subject:
    def __init__(self, recipe):
        self.recipe = recipe
        self.kind = recipe["kind"]
        self.is_class = bool(recipe.get("is_class"))
        with warnings.catch_warnings():
            warnings.simplefilter("ignore", SyntaxWarning)  # e.g. abs('a') on a literal: raising is intended behaviour
            self.code = compile(recipe["src"], "<c16:%s>" % recipe.get("hash", "?"), "exec")
        self.ops = ast.literal_eval(recipe["ops_src"])
        if self.is_class:
            a, k = eval(recipe["ctor_src"], dict(EVAL_NS))  # noqa: S307 - self-generated text
            self.ctor = (tuple(a), dict(k))
        else:
            self.ctor = None

    def build(self):
        """A fresh, independent copy of what make() returns (the class for class kinds)."""
        ns = {"__name__": NS_NAME, "__builtins__": builtins}
        exec(self.code, ns)  # noqa: S102 - self-generated text
        return ns["make"]()

    def instance(self, prior=0):
        """A fresh bare reference object (for class kinds: Cls(*ctor)), with the
        operation list already applied `prior` times (state replay)."""
        o = self.build()
        if self.is_class:
            o = o(*self.ctor[0], **self.ctor[1])
        for _ in range(prior):
            apply_ops(o, self.ops)
        return o


# --------------------------------------------------------------------------- #
# generation


class Sig:
    def __init__(self, pos, opt, varargs, kwonly, varkw):
        self.pos = pos  # [name]
        self.opt = opt  # [(name, default)]
        self.varargs = varargs
        self.kwonly = kwonly  # [(name, default or _REQ)]
        self.varkw = varkw

    def text(self, first=None):
        parts = [first] if first else []
        parts += list(self.pos)
        parts += ["%s=%r" % (n, d) for n, d in self.opt]
        if self.varargs:
            parts.append("*args")
        elif self.kwonly:
            parts.append("*")
        for n, d in self.kwonly:
            parts.append(n if d is _REQ else "%s=%r" % (n, d))
        if self.varkw:
            parts.append("**kw")
        return ", ".join(parts)

    def vars(self):
        v = list(self.pos) + [n for n, _ in self.opt] + [n for n, _ in self.kwonly]
        if self.varargs:
            v.append("args")
        if self.varkw:
            v.append("kw")
        return v


class _Req:
    def __repr__(self):
        return "<required>"


_REQ = _Req()


class Gen:
    def __init__(self, rng):
        self.r = rng

    # ---- values ---------------------------------------------------------- #
    def integer(self):
        r = self.r
        t = r.random()
        if t < 0.55:
            return r.randint(-5, 20)
        if t < 0.7:
            return r.choice([0, 1, -1, 2, 10])
        if t < 0.85:
            return r.randint(0, 1000)
        return r.choice([2**31, 2**64 + 1, -(2**40), 10**18])

    def string(self):
        return self.r.choice(
            ["", "a", "abc", "h\u00e9llo", "na\u00efve \u2603", "x y", "line\nbreak", "'q\"", "0", "keep_wrapper", "_obj", "Zz"]
        )

    def scalar(self):
        r = self.r
        t = r.random()
        if t < 0.45:
            return self.integer()
        if t < 0.70:
            return self.string()
        if t < 0.80:
            return r.choice([0.0, -1.5, 3.25, 1e10, 2.5e-3, 0.1])
        if t < 0.85:
            return None
        if t < 0.93:
            return r.choice([True, False])
        return r.choice([b"", b"ab", b"\x00\xff"])

    def value(self, depth=0):
        r = self.r
        if depth >= 2 or r.random() < 0.6:
            return self.scalar()
        t = r.randrange(3)
        n = r.randint(0, 3)
        if t == 0:
            return tuple(self.value(depth + 1) for _ in range(n))
        if t == 1:
            return [self.value(depth + 1) for _ in range(n)]
        keys = r.sample(["a", "b", "k", 1, 2, "_obj", "self_"], n)
        return {k: self.value(depth + 1) for k in keys}

    def lit(self):
        return repr(self.value())

    def nested_ints(self, depth=0):
        r = self.r
        if depth >= 3 or r.random() < 0.4:
            return r.randint(-3, 9)
        return [self.nested_ints(depth + 1) for _ in range(r.randint(0, 3))]

    # ---- expressions ----------------------------------------------------- #
    def safe_expr(self, vs):
        """Never raises whatever the variables hold."""
        r = self.r
        v = lambda: r.choice(vs) if vs and r.random() < 0.8 else self.lit()  # noqa: E731
        t = r.randrange(6)
        if t == 0:
            return v()
        if t == 1:
            return "(%s, %s)" % (v(), v())
        if t == 2:
            return "[%s, %s]" % (v(), self.lit())
        if t == 3:
            return "{'k': %s, 'c': %s}" % (v(), self.lit())
        if t == 4:
            return "type(%s).__name__" % v()
        return "(%s, repr(%s))" % (v(), v())

    def expr(self, vs, depth=0):
        """May raise (TypeError, IndexError, ...) for some inputs; that is part
        of the observed behaviour and must be forwarded as is."""
        r = self.r
        v = lambda: r.choice(vs) if vs and r.random() < 0.85 else self.lit()  # noqa: E731
        t = r.randrange(15)
        if t <= 4 or depth >= 2:
            return self.safe_expr(vs)
        if t == 5:
            return "(%s + %d)" % (v(), self.integer())
        if t == 6:
            return "(%s * %d)" % (v(), r.randint(0, 3))
        if t == 7:
            return "(str(%s) + %r)" % (v(), self.string())
        if t == 8:
            return "(%s == %s)" % (v(), self.lit())
        if t == 9:
            return "(%s if %s else %s)" % (self.expr(vs, depth + 1), v(), self.lit())
        if t == 10:
            return "len(repr(%s))" % v()
        if t == 11:
            return "%s[0]" % (r.choice(vs) if vs else "(%s,)" % self.lit())
        if t == 12:
            return "abs(%s)" % v()
        if t == 13:
            return "max(%s, %d)" % (v(), self.integer())
        return "(%s, %s)" % (self.expr(vs, depth + 1), self.expr(vs, depth + 1))

    # ---- signatures and matching calls ----------------------------------- #
    def signature(self, min_pos=0, simple=False):
        r = self.r
        npos = max(min_pos, r.choice([0, 1, 1, 2, 2, 3]))
        nopt = r.choice([0, 0, 1, 2])
        if simple:
            return Sig(["a%d" % i for i in range(npos)], [("b%d" % i, self.value()) for i in range(nopt)], False, [], False)
        varargs = r.random() < 0.3
        nkw = r.choice([0, 0, 1, 2])
        varkw = r.random() < 0.35
        kwonly = []
        for i in range(nkw):
            kwonly.append(("k%d" % i, _REQ if r.random() < 0.3 else self.value()))
        return Sig(
            ["a%d" % i for i in range(npos)],
            [("b%d" % i, self.value()) for i in range(nopt)],
            varargs,
            kwonly,
            varkw,
        )

    def arg(self):
        # mostly ints so that arithmetic bodies usually succeed
        return self.integer() if self.r.random() < 0.6 else self.value()

    def call_for(self, sig, p_invalid=0.15):
        r = self.r
        npos = len(sig.pos)
        args = [self.arg() for _ in range(npos)]
        kwargs = {}
        nopt_pos = r.randint(0, len(sig.opt))
        args += [self.arg() for _ in range(nopt_pos)]
        for n, _ in sig.opt[nopt_pos:]:
            if r.random() < 0.4:
                kwargs[n] = self.arg()
        if sig.varargs and nopt_pos == len(sig.opt):
            args += [self.arg() for _ in range(r.randint(0, 2))]
        for n, d in sig.kwonly:
            if d is _REQ or r.random() < 0.5:
                kwargs[n] = self.arg()
        if sig.varkw:
            for n in r.sample(["zz", "keep_wrapper", "_obj", "obj", "attr"], r.randint(0, 2)):
                kwargs[n] = self.arg()
        # the last required positional parameter passed by keyword
        if npos and len(args) == npos and r.random() < 0.15:
            kwargs[sig.pos[-1]] = args.pop()
        if r.random() < p_invalid:
            t = r.randrange(4)
            if t == 0:
                args = args[:-1] if args else [self.arg()] * (npos + len(sig.opt) + 1)
            elif t == 1:
                args = args + [self.arg()] * (len(sig.opt) + 2)
            elif t == 2:
                kwargs["nope_kw"] = self.arg()
            else:
                kwargs = {k: v for k, v in kwargs.items() if k not in [n for n, d in sig.kwonly if d is _REQ]}
        return ("call", tuple(args), kwargs)

    def calls_for(self, sig, n=None):
        n = n or self.r.randint(2, 4)
        return [self.call_for(sig) for _ in range(n)]

    # ---- function kinds -------------------------------------------------- #
    def _func_attr_ops(self, tagged):
        ops = [("attr", "__name__"), ("attr", "__qualname__"), ("attr", "__defaults__"), ("attr", "__kwdefaults__")]
        ops = self.r.sample(ops, self.r.randint(1, 3))
        if tagged:
            ops.append(("attr", tagged))
        ops.append(("attr", "missing_%d" % self.r.randint(0, 9)))
        return ops

    def _tag(self, fname):
        """Optionally set a custom attribute on the function inside make()."""
        if self.r.random() < 0.5:
            n = self.r.choice(ATTR_POOL)
            return n, "    %s.%s = %s\n" % (fname, n, self.lit())
        return None, ""

    def k_lambda(self):
        sig = self.signature()
        tag, tagsrc = self._tag("f")
        src = "def make():\n    c0 = %s\n    c1 = %s\n    f = lambda %s: %s\n%s    return f\n" % (
            self.lit(),
            self.lit(),
            sig.text(),
            self.expr(sig.vars() + ["c0", "c1"]),
            tagsrc,
        )
        return src, self.calls_for(sig) + self._func_attr_ops(tag), "lambda over closure values c0,c1", False

    def k_closure(self):
        r = self.r
        if r.random() < 0.25:
            # stateful closure: a counter cell that every call advances
            src = (
                "def make():\n    n = %d\n    c0 = %s\n    def counter(step=1):\n        nonlocal n\n"
                "        n = n + step\n        return (n, %s)\n    return counter\n"
            ) % (self.integer(), self.lit(), self.safe_expr(["c0", "step"]))
            ops = [("call", (), {}), ("call", (r.randint(-3, 9),), {}), ("call", (), {"step": r.randint(0, 5)})]
            if r.random() < 0.3:
                ops.append(("call", ("s",), {}))
            return src, ops + self._func_attr_ops(None), "stateful closure (nonlocal counter)", True
        sig = self.signature()
        tag, tagsrc = self._tag("g")
        src = (
            "def make():\n    c0 = %s\n    c1 = %s\n    def outer(p):\n        def inner(%s):\n            return %s\n"
            "        return inner\n    g = outer(%s)\n%s    return g\n"
        ) % (self.lit(), self.lit(), sig.text(), self.expr(sig.vars() + ["c0", "c1", "p"]), self.lit(), tagsrc)
        return src, self.calls_for(sig) + self._func_attr_ops(tag), "closure inner(...) over outer's p and make's c0,c1", False

    def k_nested_def(self):
        r = self.r
        sig = self.signature()
        if r.random() < 0.5:
            src = (
                "def make():\n    c0 = %s\n    def lvl1(u):\n        c1 = (u, c0)\n        def lvl2(v=%s):\n"
                "            def lvl3(%s):\n                return %s\n            return lvl3\n        return lvl2\n"
                "    return lvl1(%s)()\n"
            ) % (self.lit(), self.lit(), sig.text(), self.expr(sig.vars() + ["c0", "c1", "u", "v"]), self.lit())
            desc = "def nested three levels deep, closing over every level"
        else:
            src = (
                "def make():\n    c0 = %s\n    def helper(z):\n        return %s\n    def f(%s):\n"
                "        return (helper(%s), %s)\n    return f\n"
            ) % (
                self.lit(),
                self.safe_expr(["z", "c0"]),
                sig.text(),
                r.choice(sig.vars() + ["c0"]),
                self.expr(sig.vars() + ["c0"]),
            )
            desc = "local def calling a sibling local def"
        return src, self.calls_for(sig) + self._func_attr_ops(None), desc, False

    def k_recursive(self):
        r = self.r
        off = r.randint(0, 4)
        t = r.randrange(6)
        odd = lambda: r.choice(["x", None, 2.5, (1,)])  # noqa: E731
        if t == 0:
            src = "def make():\n    off = %d\n    def fact(n):\n        return off if n <= 1 else n * fact(n - 1)\n    return fact\n" % off
            ops = [("call", (r.randint(0, 14),), {}) for _ in range(3)] + [("call", (odd(),), {})]
            desc = "recursive local factorial"
        elif t == 1:
            src = (
                "def make():\n    off = %d\n    def fib(n):\n        return n + off if n < 2 else fib(n - 1) + fib(n - 2)\n    return fib\n" % off
            )
            ops = [("call", (r.randint(0, 12),), {}) for _ in range(3)] + [("call", (), {})]
            desc = "recursive local fibonacci"
        elif t == 2:
            src = (
                "def make():\n    def is_even(n):\n        return True if n == 0 else is_odd(n - 1)\n"
                "    def is_odd(n):\n        return False if n == 0 else is_even(n - 1)\n    return %s\n"
            ) % r.choice(["is_even", "is_odd"])
            ops = [("call", (r.randint(0, 60),), {}) for _ in range(3)] + [("call", (odd(),), {})]
            desc = "mutually recursive local functions"
        elif t == 3:
            src = (
                "def make():\n    off = %d\n    def depth(v):\n        if isinstance(v, (list, tuple)):\n"
                "            return 1 + max([depth(i) for i in v] + [off])\n        return 0\n    return depth\n" % off
            )
            ops = [("call", (self.nested_ints(),), {}) for _ in range(3)] + [("call", (self.value(),), {})]
            desc = "recursive local function over nested lists (depth)"
        elif t == 4:
            src = "def make():\n    fact = lambda n, acc=%d: acc if n < 2 else fact(n - 1, acc * n)\n    return fact\n" % (off + 1)
            ops = [("call", (r.randint(0, 14),), {}) for _ in range(2)] + [
                ("call", (r.randint(0, 6),), {"acc": r.randint(0, 5)}),
                ("call", (odd(),), {}),
            ]
            desc = "recursive lambda referencing itself through its closure cell"
        else:
            src = (
                "def make():\n    off = %d\n    def total(v):\n        if isinstance(v, list):\n"
                "            return sum(total(i) for i in v)\n        return v + off\n    return total\n" % off
            )
            ops = [("call", (self.nested_ints(),), {}) for _ in range(3)] + [("call", ([1, "a"],), {})]
            desc = "recursive local function over nested lists (sum)"
        return src, ops + self._func_attr_ops(None), desc, False

    def k_sig_func(self):
        r = self.r
        sig = self.signature()
        vs = sig.vars()
        guard = ""
        ops = []
        if sig.pos and r.random() < 0.35:
            bad = self.integer()
            guard = "        if %s == %r:\n            raise %s(%s)\n" % (
                sig.pos[0],
                bad,
                r.choice(["ValueError", "KeyError", "RuntimeError", "ZeroDivisionError"]),
                sig.pos[0],
            )
            ops.append(("call", (bad,) + tuple(self.arg() for _ in sig.pos[1:]), {n: self.arg() for n, d in sig.kwonly if d is _REQ}))
        tag, tagsrc = self._tag("f")
        src = "def make():\n    c0 = %s\n    def f(%s):\n%s        return (%s)\n%s    return f\n" % (
            self.lit(),
            sig.text(),
            guard,
            ", ".join(vs + ["c0", self.expr(vs + ["c0"])]),
            tagsrc,
        )
        return src, self.calls_for(sig, r.randint(3, 5)) + ops + self._func_attr_ops(tag), "local def with signature (%s)" % sig.text(), False

    def k_dyn_toplevel(self):
        sig = self.signature()
        src = ("G0 = %s\n\ndef helper(z):\n    return %s\n\ndef target(%s):\n    return (helper(%s), G0, %s)\n\ndef make():\n    return target\n") % (
            self.lit(),
            self.safe_expr(["z", "G0"]),
            sig.text(),
            self.r.choice(sig.vars() + ["G0"]),
            self.expr(sig.vars() + ["G0"]),
        )
        return src, self.calls_for(sig) + self._func_attr_ops(None), "top-level def of a non-importable module, using a module global and helper", False

    # ---- class based kinds ----------------------------------------------- #
    def _class_src(self, with_call, allow_ctor_raise):
        """Returns (body source of make() up to but excluding the return, class
        name, ctor Sig, ops, stateful, ctor_bad_value or None)."""
        r = self.r
        names = r.sample(ATTR_POOL, r.randint(2, 5))
        cname = r.choice(CLASS_NAMES)
        csig = self.signature()
        cvars = csig.vars() + ["K0"]
        lines = ["def make():", "    K0 = %s" % self.lit()]
        ops = []
        base = ""
        if r.random() < 0.3:
            battr = names.pop()
            lines += [
                "    class Base:",
                "        %s = %s" % (battr, self.lit()),
                "        def bm(self, z=%s):" % self.lit(),
                "            return %s" % self.expr(["z", "K0", "self.%s" % battr]),
            ]
            base = "(Base)"
            ops += [("attr", battr), ("meth", "bm", (), {}), ("meth", "bm", (self.arg(),), {})]
        lines.append("    class %s%s:" % (cname, base))
        if len(names) > 2 and r.random() < 0.6:
            cattr = names.pop()
            lines.append("        %s = %s" % (cattr, self.lit()))
            ops.append(("attr", cattr))
        lines.append("        def __init__(self, %s):" % csig.text() if csig.text() else "        def __init__(self):")
        bad = None
        if allow_ctor_raise and csig.pos and r.random() < 0.3:
            bad = self.integer()
            lines += [
                "            if %s == %r:" % (csig.pos[0], bad),
                "                raise %s(%s)" % (r.choice(["ValueError", "KeyError", "RuntimeError"]), csig.pos[0]),
            ]
        inst_attrs = []
        for n in names:
            lines.append("            self.%s = %s" % (n, self.safe_expr(cvars)))
            inst_attrs.append("self.%s" % n)
            ops.append(("attr", n))
        stateful = r.random() < 0.3
        if stateful:
            lines.append("            self._state = %d" % r.randint(0, 5))
        if with_call:
            s = self.signature()
            lines += ["        def __call__(self, %s):" % s.text() if s.text() else "        def __call__(self):"]
            lines += ["            return %s" % self.expr(s.vars() + inst_attrs + ["K0"])]
            ops += self.calls_for(s)
        for i in range(r.randint(0, 2)):
            s = self.signature()
            lines += ["        def m%d(self, %s):" % (i, s.text()) if s.text() else "        def m%d(self):" % i]
            lines += ["            return %s" % self.expr(s.vars() + inst_attrs + ["K0"])]
            for c in self.calls_for(s, r.randint(1, 2)):
                ops.append(("meth", "m%d" % i, c[1], c[2]))
        if stateful:
            lines += ["        def bump(self, d=1):", "            self._state += d", "            return self._state"]
            ops += [("meth", "bump", (), {}), ("attr", "_state"), ("meth", "bump", (r.randint(-2, 7),), {})]
            if r.random() < 0.3:
                ops.append(("meth", "bump", ("s",), {}))
        if r.random() < 0.35:
            # callable attributes that CHANGE between two reads (re-bound, removed, recomputed from state): a forwarded
            # read must always show the object's current attribute.  Read only through calls: a function's repr is not data.
            ci = lines.index([l for l in lines if l.startswith("        def __init__")][0])
            lines[ci + 1:ci + 1] = ["            self._n = 0", "            self.cb = lambda z=0: ('cb', 0, z)"]
            lines += [
                "        def rebind(self):",
                "            self._n += 1",
                "            n = self._n",
                "            self.cb = lambda z=0: ('cb', n, z)",
                "            return n",
                "        def unbind(self):",
                "            return self.__dict__.pop('cb', None) is not None",
                "        @property",
                "        def pcb(self):",
                "            n = self._n",
                "            return lambda: ('pcb', n)",
            ]
            ops += [("meth", "cb", (), {}), ("meth", "rebind", (), {}), ("meth", "cb", (r.randint(1, 9),), {}), ("meth", "pcb", (), {}), ("meth", "rebind", (), {}), ("meth", "pcb", (), {}), ("meth", "cb", (), {})]
            if r.random() < 0.5:
                ops += [("meth", "unbind", (), {}), ("meth", "cb", (), {})]
            stateful = True
        if r.random() < 0.4:
            lines += ["        @property", "        def prop0(self):", "            return %s" % self.expr(inst_attrs + ["K0"])]
            ops.append(("attr", "prop0"))
        if r.random() < 0.25:
            lines += ["        @staticmethod", "        def sm(z):", "            return %s" % self.expr(["z", "K0"])]
            ops.append(("meth", "sm", (self.arg(),), {}))
        if r.random() < 0.25:
            lines += ["        @classmethod", "        def cm(cls, z=%s):" % self.lit(), "            return (cls.__name__, z)"]
            ops.append(("meth", "cm", (), {}))
        if r.random() < 0.15:
            lines += [
                "        def __getattr__(self, n):",
                "            if n.startswith('dyn_'):",
                "                return (n, K0)",
                "            raise AttributeError(n)",
            ]
            ops += [("attr", "dyn_%d" % r.randint(0, 9)), ("attr", "dyn__obj")]
        ops.append(("attr", "missing_%d" % r.randint(0, 9)))
        if r.random() < 0.3:
            ops.append(("meth", "missing_m", (), {}))
        r.shuffle(ops)
        return "\n".join(lines) + "\n", cname, csig, ops, stateful, bad

    def _ctor_call(self, csig, bad, p_invalid):
        c = self.call_for(csig, p_invalid=p_invalid)
        args, kwargs = c[1], c[2]
        if bad is not None and self.r.random() < 0.3 and args:
            args = (bad,) + tuple(args[1:])
        return tuple(args), dict(kwargs)

    def k_slotted_instance(self, with_call):
        """Instance of a local class with __slots__ and no __getstate__: its reduction needs pickle protocol >= 2,
        so it tells apart a wrapper that serialises its payload with cloudpickle's own protocol from one that
        inherits the protocol of the enclosing (possibly legacy, protocol 0/1) pickler."""
        r = self.r
        a, b = r.sample(ATTR_POOL, 2)
        cname = r.choice(CLASS_NAMES)
        lines = [
            "def make():",
            "    K0 = %s" % self.lit(),
            "    class %s:" % cname,
            "        __slots__ = (%r, %r)" % (a, b),
            "        def __init__(self, u, v):",
            "            self.%s = u" % a,
            "            self.%s = v" % b,
            "        def m0(self, z=%s):" % self.lit(),
            "            return (self.%s, z, K0)" % a,
            "        def bump(self, d=1):",
            "            self.%s = (self.%s, d)" % (b, b),
            "            return self.%s" % b,
        ]
        ops = [("attr", a), ("meth", "m0", (), {}), ("meth", "bump", (), {}), ("attr", b), ("meth", "m0", (self.arg(),), {}), ("attr", "__slots__")]
        if with_call:
            lines += ["        def __call__(self, x=0):", "            return (x, self.%s, K0)" % b]
            ops += [("call", (), {}), ("call", (self.arg(),), {})]
        u, v = self.lit(), self.lit()
        src = "\n".join(lines) + "\n    return %s(%s, %s)\n" % (cname, u, v)
        desc = "%s instance of local class %s with __slots__ (no __getstate__) built with (%s, %s)" % ("callable" if with_call else "non-callable", cname, u, v)
        return src, ops, desc, True

    def k_instance(self, with_call):
        if self.r.random() < 0.15:
            return self.k_slotted_instance(with_call)
        body, cname, csig, ops, stateful, _ = self._class_src(with_call, allow_ctor_raise=False)
        args, kwargs = self._ctor_call(csig, None, p_invalid=0.0)
        parts = [repr(a) for a in args] + ["%s=%r" % kv for kv in kwargs.items()]
        src = body + "    return %s(%s)\n" % (cname, ", ".join(parts))
        desc = "%s instance of local class %s built with (%s)" % ("callable" if with_call else "non-callable", cname, ", ".join(parts))
        return src, ops, desc, stateful

    def k_class(self, with_call):
        body, cname, csig, ops, stateful, bad = self._class_src(with_call, allow_ctor_raise=True)
        args, kwargs = self._ctor_call(csig, bad, p_invalid=0.12)
        src = body + "    return %s\n" % cname
        desc = "local class %s%s with __init__(self, %s)" % (cname, " defining __call__" if with_call else "", csig.text())
        return src, ops, desc, stateful, "(%r, %r)" % (args, kwargs)

    # ---- importable (plain-picklable) kinds ------------------------------ #
    def k_importable_callable(self):
        r = self.r
        k = r.randint(0, 5)
        table = [
            ("operator.add", 2, True),
            ("len", 1, True),
            ("max", 2, True),
            ("sorted", 1, True),
            ("str.upper", 1, True),
            ("math.floor", 1, True),
            ("functools.partial(operator.mul, %d)" % k, 1, False),
            ("operator.itemgetter(%d)" % r.randint(0, 2), 1, False),
            ("'{}-{}'.format", 2, False),
            ("functools.partial(max, %d)" % k, 1, False),
        ]
        e, n, named = r.choice(table)
        src = "import operator, math, functools\n\ndef make():\n    return %s\n" % e
        ops = [("call", tuple(self.arg() for _ in range(n)), {}) for _ in range(3)]
        ops.append(("call", tuple(self.arg() for _ in range(n + 2)), {}))
        ops.append(("call", ("abc",) * n, {}))
        ops.append(("attr", "__name__"))
        ops.append(("attr", "missing_0"))
        return src, ops, "importable callable %s" % e, False

    def k_importable_instance(self):
        r = self.r
        a, b = r.randint(-9, 30), r.randint(1, 12)
        table = [
            ("fractions.Fraction(%d, %d)" % (a, b), ["numerator", "denominator"], [("limit_denominator", (3,)), ("__add__", (1,))]),
            ("datetime.timedelta(days=%d, seconds=%d)" % (a, b), ["days", "seconds"], [("total_seconds", ())]),
            ("complex(%d, %d)" % (a, b), ["real", "imag"], [("conjugate", ())]),
            ("%d" % a, ["real", "numerator"], [("bit_length", ()), ("to_bytes", (8, "big"))]),
            ("%r" % self.string(), [], [("upper", ()), ("split", ()), ("index", ("a",))]),
            ("{'a': %d, 'b': %r}" % (a, self.value()), [], [("get", ("a",)), ("get", ("zz", 7)), ("keys", ())]),
            ("[%d, %d, %d]" % (a, b, a), [], [("count", (a,)), ("index", (12345,)), ("copy", ())]),
            ("collections.Counter(%r)" % "abcabca"[: b % 7 + 1], [], [("most_common", (2,))]),
            ("range(%d, %d, %d)" % (a, a + b * 3, b), ["start", "stop", "step"], [("count", (a,)), ("index", (a,))]),
            ("slice(%d, %d, %d)" % (a, a + 10, b), ["start", "stop", "step"], [("indices", (10,))]),
        ]
        e, attrs, meths = r.choice(table)
        src = "import fractions, datetime, collections\n\ndef make():\n    return %s\n" % e
        ops = [("attr", n) for n in attrs] + [("meth", m, a_, {}) for m, a_ in meths] + [("attr", "missing_0"), ("attr", "_x")]
        r.shuffle(ops)
        return src, ops, "importable non-callable value %s" % e, False

    def k_importable_class(self):
        r = self.r
        a, b = r.randint(-9, 30), r.randint(0, 6)
        table = [
            ("fractions.Fraction", ["numerator", "denominator"], [("limit_denominator", (3,))], ["((%d, %d), {})" % (a, b), "(('3/4',), {})", "((), {'numerator': %d})" % a]),
            ("datetime.timedelta", ["days", "seconds"], [("total_seconds", ())], ["((), {'days': %d, 'hours': %d})" % (a, b), "((%d,), {})" % a, "((), {'nope': 1})"]),
            ("collections.Counter", [], [("most_common", (1,))], ["(('abca',), {})", "((), {'a': %d})" % b, "((1,), {})"]),
            ("complex", ["real", "imag"], [("conjugate", ())], ["((%d, %d), {})" % (a, b), "((), {'real': %d, 'imag': %d})" % (a, b)]),
            ("dict", [], [("get", ("a",)), ("items", ())], ["((), {'a': %d, 'b': 2})" % a, "(([('a', %d)],), {'c': 3})" % a]),
            ("range", ["start", "stop", "step"], [("count", (a,))], ["((%d, %d), {})" % (a, a + b), "((), {})"]),
            ("functools.partial", ["args", "keywords"], [], ["((operator.add, %d), {})" % a, "((max, %d), {'key': abs})" % a]),
            ("operator.itemgetter", [], [], ["((%d,), {})" % (b % 3), "((0, 1), {})"]),
        ]
        e, attrs, meths, ctors = r.choice(table)
        src = "import fractions, datetime, collections, functools, operator\n\ndef make():\n    return %s\n" % e
        ops = [("attr", n) for n in attrs] + [("meth", m, a_, {}) for m, a_ in meths] + [("attr", "missing_0")]
        inst_callable = e in ("functools.partial", "operator.itemgetter")
        if inst_callable:
            ops += [("call", ((5, 6, 7),), {}), ("call", (3,), {}), ("call", (), {})]
        r.shuffle(ops)
        return src, ops, "importable class %s" % e, False, r.choice(ctors), inst_callable

    # ---- entry point ----------------------------------------------------- #
    def recipe(self, kind=None):
        """One recipe whose factory builds and whose bare object accepts the
        operation list without crashing the generator (outcomes may of course be
        exceptions).  Retries until the trial build succeeds."""
        for _ in range(50):
            k = kind or self.r.choices(KINDS, KIND_WEIGHTS)[0]
            rec = self._recipe(k)
            try:
                s = Subject(rec)
                s.build()
            except Exception:  # noqa: BLE001 - generator bug or unlucky build-time expression; draw again
                continue
            return rec
        raise RuntimeError("generator could not produce a buildable recipe for kind %r" % kind)

    def _recipe(self, k):
        ctor_src = None
        is_class = False
        if k == "lambda":
            src, ops, desc, st = self.k_lambda()
        elif k == "closure":
            src, ops, desc, st = self.k_closure()
        elif k == "nested_def":
            src, ops, desc, st = self.k_nested_def()
        elif k == "recursive":
            src, ops, desc, st = self.k_recursive()
        elif k == "sig_func":
            src, ops, desc, st = self.k_sig_func()
        elif k == "dyn_toplevel":
            src, ops, desc, st = self.k_dyn_toplevel()
        elif k == "callable_instance":
            src, ops, desc, st = self.k_instance(True)
        elif k == "noncallable_instance":
            src, ops, desc, st = self.k_instance(False)
        elif k == "class_plain":
            src, ops, desc, st, ctor_src = self.k_class(False)
            is_class = True
        elif k == "class_callable":
            src, ops, desc, st, ctor_src = self.k_class(True)
            is_class = True
        elif k == "importable_callable":
            src, ops, desc, st = self.k_importable_callable()
        elif k == "importable_instance":
            src, ops, desc, st = self.k_importable_instance()
        elif k == "importable_class":
            src, ops, desc, st, ctor_src, inst_callable = self.k_importable_class()
            is_class = True
            if inst_callable:
                k = "class_callable"
        else:
            raise ValueError(k)
        ops_src = repr(ops)
        h = hashlib.sha1((src + "\0" + ops_src + "\0" + (ctor_src or "")).encode()).hexdigest()[:12]
        return {
            "kind": k,
            "desc": desc,
            "src": src,
            "is_class": is_class,
            "ctor_src": ctor_src,
            "ops_src": ops_src,
            "stateful": bool(st),
            "hash": h,
        }


def recipe_rng(seed, index, salt=""):
    return random.Random("c16|%s|%d|%d" % (salt, seed, index))


# --------------------------------------------------------------------------- #
# cross-process leg, child side (records only; the parent compares)


def probe(arg, ops_src):
    """Runs in a loky worker: what did the argument arrive as, how does it behave."""
    from loky.backend.reduction import get_loky_pickler_name
    from loky.cloudpickle_wrapper import CloudpickledObjectWrapper

    return {
        "wrapped": isinstance(arg, CloudpickledObjectWrapper),
        "callable": callable(arg),
        "out": apply_ops(arg, ast.literal_eval(ops_src)),
        "pickler": get_loky_pickler_name(),
        "pid": os.getpid(),
    }


def echo(arg):
    return arg


def load_cp(blob):
    """Control for the premise 'cloudpickle can serialise the object': the bare object carried by cloudpickle alone."""
    import cloudpickle

    cloudpickle.loads(blob)
    return True


def echo_cp(blob):
    import cloudpickle

    return cloudpickle.dumps(cloudpickle.loads(blob))


def _strip_self(kwargs):
    return {k: v for k, v in kwargs.items() if k not in ("self", "fn")}


def xproc_child(argv):
    seed, n, out_path = int(argv[0]), int(argv[1]), argv[2]
    from loky import get_reusable_executor, set_loky_pickler, wrap_non_picklable_objects
    from loky.backend.reduction import get_loky_pickler_name
    from loky.cloudpickle_wrapper import CloudpickledObjectWrapper

    set_loky_pickler("pickle")
    TMO = 40

    def executor():
        return get_reusable_executor(max_workers=2, timeout=120)

    def wrapped_subject(s, kw):
        o = s.build()
        if s.is_class:
            return wrap_non_picklable_objects(o, keep_wrapper=kw)(*s.ctor[0], **s.ctor[1])
        return wrap_non_picklable_objects(o, keep_wrapper=kw)

    def remote(fn, *a, **k):
        try:
            return ("ok", executor().submit(fn, *a, **k).result(timeout=TMO))
        except Exception as e:  # noqa: BLE001
            return ("exc", type(e).__name__, repr(e)[:300])

    def control(s, fn):
        """Same crossing(s) for the BARE object carried by cloudpickle alone (no wrapper): tells a limit of cloudpickle
        (outside the property's premise) from a defect of the wrapper."""
        import cloudpickle

        try:
            res = remote(fn, cloudpickle.dumps(s.instance()))
            if res[0] != "ok":
                return "exc %s %s" % (res[1], res[2])
            if fn is echo_cp:
                cloudpickle.loads(res[1])
            return "ok"
        except Exception as e:  # noqa: BLE001
            return "exc %s %s" % (type(e).__name__, repr(e)[:300])

    records = []
    skipped = 0
    i = 0
    idx = 0
    while len(records) < n and idx < 4 * n + 50:
        kind = KINDS[idx % len(KINDS)]
        rec = Gen(recipe_rng(seed, idx, "xproc")).recipe(kind)
        idx += 1
        s = Subject(rec)
        try:
            ref = s.instance()
        except Exception:  # noqa: BLE001 - constructor that raises: nothing to send
            skipped += 1
            continue
        kw = bool(i % 2)
        i += 1
        ops = s.ops
        R = {"recipe": rec, "keep_wrapper": kw, "tasks": []}
        # (P) wrapper as an argument
        d = {"callable": callable(ref), "out": apply_ops(s.instance(), ops)}
        try:
            wrapped_subject(s, kw)
        except Exception as e:  # noqa: BLE001 - bare construction worked, wrapped construction did not
            R["tasks"].append({"task": "construct", "direct": "constructs", "remote": "E:" + type(e).__name__, "detail": repr(e)[:300]})
            records.append(R)
            continue
        res = remote(probe, wrapped_subject(s, kw), rec["ops_src"])
        R["tasks"].append({"task": "arg", "direct": d, "remote": list(res)})
        if res[0] != "ok":
            R["tasks"][-1]["control"] = control(s, load_cp)
        # (F) wrapper as the task function itself
        if callable(ref):
            for op in [o for o in ops if o[0] == "call" and not set(o[2]) & {"self", "fn"}][:2]:
                dres = apply_op(s.instance(), op)
                res = remote(wrapped_subject(s, kw), *op[1], **op[2])
                rres = canon(lambda: res[1]) if res[0] == "ok" else "E:" + res[1]
                R["tasks"].append({"task": "fn", "op": op_text(op), "direct": dres, "remote": rres, "detail": res[2] if res[0] == "exc" else ""})
        # (E) kept wrapper sent and returned: two crossings, must still be wrapped and working
        if kw:
            res = remote(echo, wrapped_subject(s, kw))
            if res[0] == "ok":
                back = res[1]
                rr = {"wrapped": isinstance(back, CloudpickledObjectWrapper), "callable": callable(back), "out": apply_ops(back, ops)}
                R["tasks"].append({"task": "echo", "direct": d, "remote": ["ok", rr]})
            else:
                R["tasks"].append({"task": "echo", "direct": d, "remote": list(res), "control": control(s, echo_cp)})
        records.append(R)
    with open(out_path + ".tmp", "w") as f:
        json.dump({"pickler": get_loky_pickler_name(), "records": records, "skipped_ctor_raises": skipped}, f)
    os.replace(out_path + ".tmp", out_path)
    try:
        executor().shutdown(wait=True, kill_workers=True)
    except Exception:  # noqa: BLE001
        pass
    return 0


if __name__ == "__main__":
    # re-import under the real module name so that probe/echo pickle by reference
    from harness.inproc import wrapper_gen as _g

    sys.exit(_g.xproc_child(sys.argv[1:]))
