"""C11 second stage: the same request sequences over REAL resources through a REAL tracker
process (production ensure_running path), issued by 1-4 client processes (root + LokyProcess
children that inherit the tracker's pipe), checked step by step against the reference model.

A *fence* makes the tracker's progress observable with the real protocol only: after each request
the issuing client registers and maybe_unlinks a private fence file and waits until it is gone,
which proves that every earlier line of that client has been processed.

Run as:  python -m harness.inproc.tracker_real '<json job>'   (root of one case; prints a JSON report)
"""
import json
import os
import sys
import time


def _exists(rtype, path):
    if rtype == "semlock":
        return os.path.exists("/dev/shm/sem." + path.lstrip("/"))
    return os.path.exists(path)


def _create(rtype, path):
    if _exists(rtype, path):
        return
    if rtype == "file":
        os.makedirs(os.path.dirname(path), exist_ok=True)
        open(path, "w").close()
    elif rtype == "folder":
        os.makedirs(path, exist_ok=True)
        open(os.path.join(path, "inner.txt"), "w").close()
    else:
        import _multiprocessing

        _multiprocessing.SemLock(1, 1, 1, path, False)


def _fence(rt, base, who, i):
    p = os.path.join(base, "fence.%s.%d" % (who, i))
    open(p, "w").close()
    rt.register(p, "file")
    rt.maybe_unlink(p, "file")
    t0 = time.monotonic()
    while os.path.exists(p):
        if time.monotonic() - t0 > 20:
            return False
        time.sleep(0.0005)
    return True


def _do(rt, cmd, path, rtype):
    if cmd == "REGISTER":
        rt.register(path, rtype)
    elif cmd == "UNREGISTER":
        rt.unregister(path, rtype)
    elif cmd == "MAYBE_UNLINK":
        rt.maybe_unlink(path, rtype)


def child_main(conn, base, who):
    from loky.backend import resource_tracker as rt

    i = 0
    while True:
        msg = conn.recv()
        if msg is None:
            break
        cmd, path, rtype = msg
        _do(rt, cmd, path, rtype)
        i += 1
        ok = _fence(rt, base, who, i)
        conn.send(ok)
    conn.close()


def root_main(job):
    sys.path.insert(0, job["repo"])
    import loky  # noqa
    from loky.backend import resource_tracker as rt
    from loky.backend.context import get_context

    assert os.path.realpath(os.path.dirname(loky.__file__)) == os.path.realpath(os.path.join(job["repo"], "loky"))
    base = job["dir"]
    rt.ensure_running()
    tracker_pid = rt._resource_tracker._pid
    ctx = get_context("loky")
    import multiprocessing as mp

    kids = []
    for c in range(1, job["n_clients"]):
        a, b = mp.Pipe()
        p = ctx.Process(target=child_main, args=(b, base, "c%d" % c))
        p.start()
        b.close()
        kids.append((p, a))
    count = {}
    report = {"tracker_pid": tracker_pid, "steps": [], "violation": None}
    nf = 0
    for i, (client, cmd, name, rtype) in enumerate(job["steps"]):
        path = name if rtype == "semlock" else os.path.join(base, name)
        key = (rtype, path)
        if cmd == "REGISTER":
            _create(rtype, path)
        # reference model (from the statement)
        destroyed = False
        if cmd == "REGISTER":
            count[key] = count.get(key, 0) + 1
        elif cmd == "UNREGISTER":
            count.pop(key, None)
        elif cmd == "MAYBE_UNLINK" and key in count:
            count[key] -= 1
            if count[key] == 0:
                del count[key]
                destroyed = True
        existed = _exists(rtype, path)
        if client == 0:
            _do(rt, cmd, path, rtype)
            nf += 1
            ok = _fence(rt, base, "root", nf)
        else:
            conn = kids[client - 1][1]
            conn.send((cmd, path, rtype))
            ok = conn.recv()
        if not ok:
            report["violation"] = {"clause": "tracker_stopped_consuming", "text": "fence after step %d (%s %s %s by client %d) was never processed" % (i, cmd, name, rtype, client)}
            break
        now = _exists(rtype, path)
        want = existed and not destroyed
        report["steps"].append([client, cmd, name, rtype, existed, now])
        if now != want:
            report["violation"] = {
                "clause": "destroyed_while_counted" if (existed and not now) else "not_destroyed_at_zero",
                "text": "step %d: %s %s %s by client %d: resource exists=%s after the request, reference model says %s (count now %s)" % (i, cmd, name, rtype, client, now, want, count.get(key)),
            }
            break
    nb = int(job.get("burst") or 0)
    if nb and report["violation"] is None:
        # a burst of requests written faster than the tracker reads them (it is also busy unlinking): every single line must
        # still be applied exactly once - n registrations of distinct files, fence, all must exist; n maybe_unlinks, fence, all gone
        bd = os.path.join(base, "burst")
        os.makedirs(bd, exist_ok=True)
        paths = [os.path.join(bd, "b%04d-%s" % (i, "x" * (i % 37))) for i in range(nb)]
        for q in paths:
            open(q, "w").close()
        for q in paths:
            rt.register(q, "file")
        for q in paths[::2]:
            rt.register(q, "file")  # count 2 for every other one
        for q in paths[::2]:
            rt.maybe_unlink(q, "file")
        ok = _fence(rt, base, "root", 10**6)
        missing = [q for q in paths if not os.path.exists(q)]
        if not ok:
            report["violation"] = {"clause": "tracker_stopped_consuming", "text": "fence after a burst of %d requests was never processed" % (2 * nb)}
        elif missing:
            report["violation"] = {"clause": "destroyed_while_counted", "text": "burst of %d requests: %d files with a positive count were destroyed, e.g. %s" % (2 * nb, len(missing), missing[:3])}
        else:
            for q in paths:
                rt.maybe_unlink(q, "file")
            ok = _fence(rt, base, "root", 10**6 + 1)
            left = [q for q in paths if os.path.exists(q)]
            if not ok:
                report["violation"] = {"clause": "tracker_stopped_consuming", "text": "second fence after the burst was never processed"}
            elif left:
                report["violation"] = {"clause": "not_destroyed_at_zero", "text": "burst of %d requests: %d files whose count reached zero still exist (a request line was lost or mangled), e.g. %s" % (2 * nb, len(left), left[:3])}
        report["burst"] = nb
    for p, conn in kids:
        try:
            conn.send(None)
        except Exception:
            pass
    for p, conn in kids:
        p.join()
    report["remaining"] = [[k[0], k[1], _exists(k[0], k[1])] for k in count]
    report["counted_at_end"] = [[k[0], k[1]] for k in count]
    seen = {}
    for client, cmd, name, rtype in job["steps"]:
        path = name if rtype == "semlock" else os.path.join(base, name)
        seen[(rtype, path)] = True
    report["uncounted_existing_at_end"] = [[k[0], k[1]] for k in seen if k not in count and _exists(k[0], k[1])]
    sys.stdout.write(json.dumps(report))
    sys.stdout.flush()


if __name__ == "__main__":
    root_main(json.loads(sys.argv[1]))
