"""Shared plumbing for every check: paths, seeds, evidence, findings, verdict lines.

Nothing in here decides a property; it only carries what the monitors observed
to the places the interface (MANIFEST / EVIDENCE schema) wants it.
"""
import json
import os
import shutil
import sys
import time

VERIF = os.path.dirname(os.path.dirname(os.path.abspath(__file__)))
REPO = os.environ.get("VERIF_REPO", "/repo")
PY = os.environ.get("VERIF_PY", "/venv/bin/python")
SITE = os.path.join(VERIF, "harness", "site")
# validation runs against mutated copies of the repository redirect their evidence/replays here
OUT = os.environ.get("VERIF_OUT") or VERIF
NCPU = os.cpu_count() or 4


def seed():
    try:
        return int(os.environ.get("VERIF_SEED", "0"))
    except ValueError:
        return 0


def budget(default):
    """Optional wall-clock cap for the exploration part of a tier (seconds)."""
    v = os.environ.get("VERIF_BUDGET_S")
    return float(v) if v else float(default)


def scratch_root():
    """Per-invocation scratch directory outside /repo and /verif."""
    base = os.environ.get("VERIF_TMP") or os.environ.get("TMPDIR") or "/tmp"
    d = os.path.join(base, "lv-%d-%d" % (os.getpid(), int(time.time())))
    os.makedirs(d, exist_ok=True)
    return d


def load_findings():
    p = os.path.join(VERIF, "harness", "known_findings.json")
    with open(p) as f:
        return json.load(f)


class Verdicts:
    """Collects per-case verdicts for one property and produces the exit code.

    violated      -> VIOLATION line unless the mechanism signature matches an
                     *open* entry of known_findings.json (then KNOWN-FINDING).
    inconclusive  -> counted, never folded into held or violated.
    """

    def __init__(self, prop):
        self.prop = prop
        self.violations = []  # (sig, text, replay_path)
        self.known = {}  # finding id -> [count, text]
        self.inconclusive = {}  # reason -> count
        self.held = 0
        fj = load_findings()
        self.open_findings = [
            f for f in fj.get("findings", []) if f.get("status") == "open" and self.prop in f.get("properties", [])
        ]

    def match_known(self, sig):
        """sig: dict describing the mechanism of a violation. A finding matches
        when every key of its 'signature' equals (or is contained in, for list
        values) the violation's signature."""
        for f in self.open_findings:
            ok = True
            for k, v in f["signature"].items():
                sv = sig.get(k)
                if isinstance(v, list):
                    if sv not in v:
                        ok = False
                        break
                elif sv != v:
                    ok = False
                    break
            if ok:
                return f
        return None

    def violation(self, sig, text, replay=None):
        f = self.match_known(sig)
        if f is not None:
            e = self.known.setdefault(f["id"], [0, f["what"]])
            e[0] += 1
            return "known"
        self.violations.append((sig, text, replay))
        return "violation"

    def inconc(self, reason):
        self.inconclusive[reason] = self.inconclusive.get(reason, 0) + 1

    def ok(self, n=1):
        self.held += n

    def finish(self, floor_ok=True, floor_text=""):
        for fid, (n, what) in sorted(self.known.items()):
            print("KNOWN-FINDING: property=%s %s [%s, seen in %d case(s) of this run]" % (self.prop, what, fid, n))
        for sig, text, replay in self.violations[:20]:
            print("VIOLATION property=%s replay=%s" % (self.prop, replay or "-"))
            print("  " + text.replace("\n", "\n  ")[:4000])
        if len(self.violations) > 20:
            print("  ... %d more violations" % (len(self.violations) - 20))
        if self.inconclusive:
            print("inconclusive cases: %s" % json.dumps(self.inconclusive, sort_keys=True))
        if self.violations:
            return 1
        if not floor_ok:
            print("INCONCLUSIVE property=%s %s" % (self.prop, floor_text))
            return 2
        print(
            "HELD property=%s on %d case(s) observed; %d known-finding hit(s); %d inconclusive"
            % (self.prop, self.held, sum(v[0] for v in self.known.values()), sum(self.inconclusive.values()))
        )
        return 0


def write_evidence(prop, tier, level, coverage, wall_s, violations=0, assumptions=None):
    d = os.path.join(OUT, "evidence")
    os.makedirs(d, exist_ok=True)
    ev = {
        "property_id": prop,
        "tier": tier,
        "seed": seed(),
        "level": level,
        "coverage": coverage,
        "assumptions": assumptions or [],
        "wall_s": round(float(wall_s), 3),
        "violations": int(violations),
    }
    tmp = os.path.join(d, ".%s.json.tmp" % prop)
    with open(tmp, "w") as f:
        json.dump(ev, f, indent=1, sort_keys=True, default=repr)
    os.replace(tmp, os.path.join(d, "%s.json" % prop))
    return ev


def save_replay(prop, name, files=None, copy_dir=None):
    """Keep a violating / known-finding case under /verif/replays/<prop>/<name>."""
    dst = os.path.join(OUT, "replays", prop, name)
    if os.path.isdir(dst):
        shutil.rmtree(dst, ignore_errors=True)
    os.makedirs(dst, exist_ok=True)
    if copy_dir and os.path.isdir(copy_dir):
        for fn in os.listdir(copy_dir):
            src = os.path.join(copy_dir, fn)
            try:
                if os.path.isfile(src) and os.path.getsize(src) < 4_000_000:
                    shutil.copy2(src, os.path.join(dst, fn))
            except OSError:
                pass
    for fn, content in (files or {}).items():
        with open(os.path.join(dst, fn), "w") as f:
            if isinstance(content, str):
                f.write(content)
            else:
                json.dump(content, f, indent=1, default=repr)
    return dst


def repo_env(extra=None):
    """Environment for a child interpreter that must import /repo's working tree
    with the guard OFF (in-process engines)."""
    env = dict(os.environ)
    env["PYTHONPATH"] = REPO + os.pathsep + VERIF
    env["PYTHONHASHSEED"] = env.get("PYTHONHASHSEED", "0")
    env.pop("LOKY_VERIF", None)
    if extra:
        env.update(extra)
    return env


def ensure_repo_on_path():
    """Make `import loky` resolve to REPO's working tree in this process."""
    if sys.path[0] != REPO:
        sys.path.insert(0, REPO)
    import loky  # noqa

    assert os.path.realpath(os.path.dirname(loky.__file__)) == os.path.realpath(os.path.join(REPO, "loky")), (
        loky.__file__
    )
