"""From a profile run to derived injection plans (modes K, D, DK, Z of DESIGN 2.5)."""


def points_of(facts, role=None, proc=None, thr=None, files=None, quals=None, exclude_quals=()):
    """Injection points actually executed in the profile run, with hit counts."""
    counts = {}
    for e in facts.h.by("ptcount"):
        for k, n in e.get("counts", {}).items():
            f, q, r, t = k.rsplit("|", 3)[0], None, None, None
            parts = k.split("|")
            f, q, r, t = parts[0], parts[1], int(parts[2]), parts[3]
            counts[(e["pid"], f, q, r, t)] = n
    out = []
    seen = set()
    for e in facts.points:
        f, q, r = e["pt"]
        if role is not None and e.get("role") != role:
            continue
        if proc is not None and e.get("proc") != proc:
            continue
        if thr is not None and e.get("thr") != thr:
            continue
        if files is not None and f not in files:
            continue
        if quals is not None and not any(q == x or q.startswith(x + ".") for x in quals):
            continue
        if any(q == x or q.startswith(x + ".") for x in exclude_quals):
            continue
        key = (e.get("role"), e.get("proc"), e.get("thr"), f, q, r)
        if key in seen:
            continue
        seen.add(key)
        out.append(
            {
                "role": e.get("role"),
                "proc": e.get("proc"),
                "thr": e.get("thr"),
                "file": f,
                "qual": q,
                "rel": r,
                "count": counts.get((e["pid"], f, q, r, e.get("thr")), 1),
            }
        )
    return out


def rule(pt, action, hit=1, any_proc=False):
    return {
        "role": pt["role"],
        "proc": "*" if (any_proc or pt["proc"] is None) else pt["proc"],
        "thread": pt["thr"],
        "file": pt["file"],
        "qual": pt["qual"],
        "rel": pt["rel"],
        "hit": hit,
        "action": action,
    }


def hits_for(pt, rng, which=("first", "last")):
    hs = []
    c = max(1, int(pt.get("count", 1)))
    for w in which:
        if w == "first":
            hs.append(1)
        elif w == "second" and c >= 2:
            hs.append(2)
        elif w == "last" and c >= 2:
            hs.append(c)
        elif w == "random" and c >= 3:
            hs.append(rng.randint(2, c - 1))
    return sorted(set(hs))


def stratified_sample(points, n, rng, key=lambda p: (p["file"], p["qual"])):
    """Sample n points so that every function is represented before any is repeated."""
    groups = {}
    for p in points:
        groups.setdefault(key(p), []).append(p)
    for g in groups.values():
        rng.shuffle(g)
    order = sorted(groups)
    rng.shuffle(order)
    out = []
    while len(out) < n and any(groups.values()):
        for k in order:
            if groups[k]:
                out.append(groups[k].pop())
                if len(out) >= n:
                    break
    return out


KILL_ACTIONS = [["kill", "SIGKILL"], ["kill", "SIGSEGV"], ["kill", "SIGTERM"], ["exit", 3], ["cexit", 5], ["exit", 0], ["kill", 35], ["exit", 255], ["kill", "SIGUSR1"]]


DRIVER_FILES = ("process_executor.py", "reusable_executor.py", "backend/queues.py", "mp/queues.py", "backend/synchronize.py", "mp/util.py", "mp/process.py",
                "backend/popen_loky_posix.py", "backend/process.py", "backend/fork_exec.py", "backend/spawn.py", "backend/reduction.py")
WORKER_FILES = ("process_executor.py", "backend/queues.py", "mp/queues.py", "backend/popen_loky_posix.py", "mp/process.py",
                "backend/synchronize.py", "backend/spawn.py", "backend/process.py", "mp/util.py")


def base_delay(base, rng):
    t = (base.get("meta", {}).get("kw") or {}).get("timeout")
    if t is not None and t <= 0.3:
        return round(min(1.0, max(0.05, 3 * t)), 3)
    return rng.choice([0.05, 0.3])


def derive_D(F, base, rng, n, quals=None, files=DRIVER_FILES, thr=None, which=("first", "second", "last", "random"), delay=None):
    out = []
    pts = points_of(F, role="driver", files=files, quals=quals, thr=thr)
    for pt in stratified_sample(pts, n, rng):
        hs = hits_for(pt, rng, which=(rng.choice(which),)) or [1]
        d = delay if delay is not None else base_delay(base, rng)
        out.append(({"rules": [rule(pt, ["sleep", d], hit=hs[0])]}, {"mode": "D", "fn": pt["qual"], "thr": pt["thr"]}))
    return out


def derive_DD(F, base, rng, n, quals=None, files=DRIVER_FILES, delay=None):
    """Two delays in two different threads of the driver (user/manager/feeder/...): races that need two windows."""
    pts = points_of(F, role="driver", files=files, quals=quals)
    by_thr = {}
    for pt in pts:
        by_thr.setdefault(pt["thr"], []).append(pt)
    if len(by_thr) < 2:
        return []
    out = []
    thrs = sorted(by_thr)
    for _ in range(n):
        t1, t2 = rng.sample(thrs, 2)
        rules = []
        fns = []
        for t in (t1, t2):
            cand = stratified_sample(by_thr[t], 6, rng)
            pt = rng.choice(cand)
            hs = hits_for(pt, rng, which=(rng.choice(("first", "second", "last", "random")),)) or [1]
            d = delay if delay is not None else base_delay(base, rng)
            rules.append(rule(pt, ["sleep", d], hit=hs[0]))
            fns.append(pt["qual"])
        out.append(({"rules": rules}, {"mode": "DD", "fn": "+".join(fns), "thr": "%s+%s" % (t1, t2)}))
    return out


def derive_K(F, base, rng, n, quals=None, files=WORKER_FILES, actions=KILL_ACTIONS, which=("first", "last"), n_workers=1, enumerate_all=False):
    out = []
    workers = sorted({p["proc"] for p in points_of(F, role="worker") if p["proc"]})
    if not workers:
        return out
    for w in rng.sample(workers, min(n_workers, len(workers))):
        pts = points_of(F, role="worker", proc=w, files=files, quals=quals)
        chosen = pts if enumerate_all else stratified_sample(pts, n, rng)
        for pt in chosen:
            for h in (hits_for(pt, rng, which=which) if enumerate_all else (hits_for(pt, rng, which=(rng.choice(which),)) or [1])):
                act = rng.choice(actions)
                out.append(({"rules": [rule(pt, act, hit=h)]}, {"mode": "K", "fn": pt["qual"], "act": act[0] + str(act[1])}))
    return out


def rel_of_source(relpath, qual, needle, nth=1):
    """rel (line - co_firstlineno) of the nth line containing `needle` inside function `qual` (dotted for methods) of
    a file of the tree under test; None when not found (the tree was changed)."""
    import ast
    import os

    from . import common

    try:
        src = open(os.path.join(common.REPO, "loky", relpath)).read()
        tree = ast.parse(src)
    except (OSError, SyntaxError):
        return None
    lines = src.splitlines()
    node = tree
    for name in qual.split("."):
        nxt = None
        for n in ast.walk(node):
            if isinstance(n, (ast.FunctionDef, ast.ClassDef, ast.AsyncFunctionDef)) and n.name == name and n is not node:
                nxt = n
                break
        if nxt is None:
            return None
        node = nxt
    first = min([node.lineno] + [d.lineno for d in node.decorator_list])
    k = 0
    for ln in range(node.lineno, node.end_lineno + 1):
        if needle in lines[ln - 1]:
            k += 1
            if k == nth:
                return ln - first
    return None


def derive_LK(F, base, rng, n, quals=None, files=WORKER_FILES, linger=(0.3, 0.6), actions=KILL_ACTIONS, which=("first", "second", "last")):
    """Linger-then-die: a worker stays `linger` seconds at a statement (holding whatever it holds there: a queue lock, the
    management lock, a half-sent announcement) while the rest of the pool goes on, and dies at that very statement."""
    out = []
    workers = sorted({p["proc"] for p in points_of(F, role="worker") if p["proc"]})
    if not workers:
        return out
    for _ in range(n):
        w = rng.choice(workers)
        pts = points_of(F, role="worker", proc=w, files=files, quals=quals)
        if not pts:
            continue
        pt = rng.choice(stratified_sample(pts, 6, rng))
        h = (hits_for(pt, rng, which=(rng.choice(which),)) or [1])[0]
        act = rng.choice(actions)
        out.append(({"rules": [rule(pt, ["sleep", rng.choice(linger)], hit=h), rule(pt, act, hit=h)]}, {"mode": "LK", "fn": pt["qual"], "act": act[0] + str(act[1])}))
    return out


def derive_WD(F, base, rng, n, quals=None, delay=None):
    """Delay inside a worker (e.g. between its time-out decision and its announcement)."""
    out = []
    workers = sorted({p["proc"] for p in points_of(F, role="worker") if p["proc"]})
    if not workers:
        return out
    w = rng.choice(workers)
    pts = points_of(F, role="worker", proc=w, files=WORKER_FILES, quals=quals)
    for pt in stratified_sample(pts, n, rng):
        hs = hits_for(pt, rng, which=(rng.choice(("first", "last", "random")),)) or [1]
        d = delay if delay is not None else base_delay(base, rng)
        anyp = rng.random() < 0.5
        out.append(({"rules": [rule(pt, ["sleep", d], hit=hs[0], any_proc=anyp)]}, {"mode": "WD", "fn": pt["qual"]}))
    return out


def derive_Z(rng, n, p=0.03, dmax=0.02):
    return [({"seed": rng.randint(0, 10**6), "rules": [{"role": "*", "action": ["jitter", p, dmax]}]}, {"mode": "Z"}) for _ in range(n)]


def derive_DS(F, base, rng, n=2, quals=("BaseProcess.sentinel",), d=None):
    """Sustained small delay on EVERY hit of a short accessor that the manager thread calls in a loop
    (e.g. the sentinel getter inside the comprehension that builds its wait list): turns a microsecond
    window that recurs on every loop iteration into a wide one, without choosing a particular hit."""
    out = []
    pts = points_of(F, role="driver", thr="mgr", quals=list(quals))
    for pt in stratified_sample(pts, n, rng, key=lambda p: (p["qual"], p["rel"])):
        t = (base.get("meta", {}).get("kw") or {}).get("timeout")
        dd = d if d is not None else (min(0.02, max(0.002, t)) if t else 0.01)
        out.append(({"rules": [rule(pt, ["sleep", round(dd, 4)], hit=0)]}, {"mode": "DS", "fn": pt["qual"], "thr": "mgr"}))
    return out
