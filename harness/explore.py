"""From a profile run to derived injection plans (modes K, D, DK, Z of DESIGN 2.5)."""


def points_of(facts, role=None, proc=None, thr=None, files=None, quals=None, exclude_quals=()):
    """Injection points actually executed in the profile run, with hit counts."""
    counts = {}
    for e in facts.h.by("ptcount"):
        for k, n in e.get("counts", {}).items():
            f, q, r, t = k.rsplit("|", 3)[0], None, None, None
            parts = k.split("|")
            f, q, r, t = parts[0], parts[1], int(parts[2]), parts[3]
            counts[(e["pid"], f, q, r, t)] = n
    out = []
    seen = set()
    for e in facts.points:
        f, q, r = e["pt"]
        if role is not None and e.get("role") != role:
            continue
        if proc is not None and e.get("proc") != proc:
            continue
        if thr is not None and e.get("thr") != thr:
            continue
        if files is not None and f not in files:
            continue
        if quals is not None and not any(q == x or q.startswith(x + ".") for x in quals):
            continue
        if any(q == x or q.startswith(x + ".") for x in exclude_quals):
            continue
        key = (e.get("role"), e.get("proc"), e.get("thr"), f, q, r)
        if key in seen:
            continue
        seen.add(key)
        out.append(
            {
                "role": e.get("role"),
                "proc": e.get("proc"),
                "thr": e.get("thr"),
                "file": f,
                "qual": q,
                "rel": r,
                "count": counts.get((e["pid"], f, q, r, e.get("thr")), 1),
            }
        )
    return out


def rule(pt, action, hit=1, any_proc=False):
    return {
        "role": pt["role"],
        "proc": "*" if (any_proc or pt["proc"] is None) else pt["proc"],
        "thread": pt["thr"],
        "file": pt["file"],
        "qual": pt["qual"],
        "rel": pt["rel"],
        "hit": hit,
        "action": action,
    }


def hits_for(pt, rng, which=("first", "last")):
    hs = []
    c = max(1, int(pt.get("count", 1)))
    for w in which:
        if w == "first":
            hs.append(1)
        elif w == "second" and c >= 2:
            hs.append(2)
        elif w == "last" and c >= 2:
            hs.append(c)
        elif w == "random" and c >= 3:
            hs.append(rng.randint(2, c - 1))
    return sorted(set(hs))


def stratified_sample(points, n, rng, key=lambda p: (p["file"], p["qual"])):
    """Sample n points so that every function is represented before any is repeated."""
    groups = {}
    for p in points:
        groups.setdefault(key(p), []).append(p)
    for g in groups.values():
        rng.shuffle(g)
    order = sorted(groups)
    rng.shuffle(order)
    out = []
    while len(out) < n and any(groups.values()):
        for k in order:
            if groups[k]:
                out.append(groups[k].pop())
                if len(out) >= n:
                    break
    return out


KILL_ACTIONS = [["kill", "SIGKILL"], ["kill", "SIGSEGV"], ["kill", "SIGTERM"], ["exit", 3], ["cexit", 5], ["exit", 0]]
