"""CLI: ./check Cxx --tier quick|thorough ; ./check replay <dir> [--runs N]"""
import argparse
import importlib
import os
import sys


def main():
    ap = argparse.ArgumentParser()
    ap.add_argument("what")
    ap.add_argument("path", nargs="?")
    ap.add_argument("--tier", default=os.environ.get("VERIF_TIER", "quick"), choices=["quick", "thorough"])
    ap.add_argument("--runs", type=int, default=5)
    a = ap.parse_args()
    if a.what == "replay":
        from . import replay

        sys.exit(replay.main(a.path, a.runs))
    mod = importlib.import_module("harness.checks.%s" % a.what)
    sys.exit(mod.main(a.tier))


if __name__ == "__main__":
    main()
