"""setup_cmd: probe the sandbox only (nothing is compiled or downloaded)."""
import json
import os
import shutil
import subprocess
import sys

from . import common, runner


def main():
    info = {
        "python": sys.version,
        "cpus": os.cpu_count(),
        "unshare": shutil.which("unshare"),
        "isolation_available": runner.isolation_available(),
        "sys_monitoring": hasattr(sys, "monitoring"),
        "repo": common.REPO,
    }
    try:
        r = subprocess.run([common.PY, "-c", "import loky,sys;print(loky.__file__)"], capture_output=True, text=True,
                           env=common.repo_env(), timeout=60)
        info["loky_import"] = r.stdout.strip() or r.stderr.strip()[-300:]
    except Exception as e:
        info["loky_import"] = repr(e)
    print(json.dumps(info, indent=1))
    if not info["sys_monitoring"]:
        print("sys.monitoring missing: the injector needs Python >= 3.12", file=sys.stderr)
        return 1
    return 0


if __name__ == "__main__":
    sys.exit(main())
