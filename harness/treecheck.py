"""Generic engine for the process-tree checks: profile -> derive -> run -> oracle."""
import json
import os
import random
import time

from . import common, runner
from .analysis import Facts

DEFAULT_TIMEOUTS = {"hard_s": 150, "stall_s": 40, "tree_wait_s": 8}


def mk_case(prop, base, plan, meta, seed):
    to = dict(DEFAULT_TIMEOUTS)
    to.update(base.get("timeouts", {}))
    plan = dict(plan)
    plan.setdefault("seed", seed)
    return {
        "prop": prop,
        "program": base["program"],
        "config": base.get("config", {}),
        "plan": plan,
        "timeouts": to,
        "meta": dict(base.get("meta", {}), **meta),
    }


def summarize_case(case, facts):
    prog = case["program"]
    ops = []
    for th in prog.get("threads", []):
        ops.append([o["op"] + (":" + o["task"]["k"] if o.get("task") else "") for o in th][:40])
    rules = [
        {k: r.get(k) for k in ("role", "proc", "thread", "file", "qual", "rel", "hit", "action")}
        for r in case["plan"].get("rules", [])
    ]
    done = {}
    handed = facts.handed_out()
    for name, f in facts.futs.items():
        d = f["done"]
        if d is None:
            st = "pending" if name in handed else "submit_raised_or_open"
        else:
            st = d["state"] + (":" + d["exc"]["type"] if d.get("exc") else "")
        done[st] = done.get(st, 0) + 1
    return {
        "meta": case.get("meta"),
        "threads_ops": ops,
        "end": prog.get("end", "return"),
        "plan_rules": rules,
        "outcome": facts.outcome,
        "faults_fired": [[f.get("kind"), f.get("pt"), f.get("sig", f.get("code", f.get("d")))] for f in facts.faults][:6],
        "future_outcomes": done,
        "n_events": len(facts.h.events),
        "n_processes": len(facts.procs),
    }


class TreeCheck:
    """Subclass/instantiate per property.

    bases(tier, rng)                 -> list of base dicts {program, config, timeouts, meta}
    derive(base, facts, rng, tier)   -> list of (plan, meta) derived from the profile run
    oracle(case, facts)              -> list of (signature dict, text)
    nontrivial(case, facts)          -> hashable key if the deciding monitor observed
                                        something relevant in this case, else None
    """

    prop = None
    level = "exploration"
    assumptions = []
    rule_text = ""
    jobs = None
    floor_nontrivial = 2
    profile = True

    def bases(self, tier, rng):
        raise NotImplementedError

    def derive(self, base, facts, rng, tier):
        return []

    def oracle(self, case, facts):
        raise NotImplementedError

    def nontrivial(self, case, facts):
        return None

    def extra_coverage(self):
        return {}

    # ------------------------------------------------------------------
    def run(self, tier):
        t0 = time.monotonic()
        seed = common.seed()
        rng = random.Random(seed * 7919 + 17)
        V = common.Verdicts(self.prop)
        cov = {
            "evaluations": 0,
            "outcomes": {},
            "faults_fired": 0,
            "faults_planned": 0,
            "faults_fired_by_function": {},
            "futures_observed": 0,
            "task_executions_observed": 0,
            "processes_observed": 0,
            "ops_observed": 0,
            "events_observed": 0,
            "points_discovered": 0,
            "modes": {},
            "future_outcomes": {},
        }
        nontriv = set()
        samples = []
        known_replays = set()
        budget_s = common.budget(self.budget(tier))
        scratch = common.scratch_root()
        self._cov = cov
        self._points = set()

        def analyse(case, hist):
            cov["evaluations"] += 1
            mode = case.get("meta", {}).get("mode", "?")
            cov["modes"][mode] = cov["modes"].get(mode, 0) + 1
            if hist.outcome == "infra" or hist.monitor_errors:
                V.inconc("infra")
                if len(samples) < 12 and hist.infra_error:
                    samples.append({"infra_error": hist.infra_error[-400:]})
                return None
            facts = Facts(hist)
            cov["outcomes"][facts.outcome] = cov["outcomes"].get(facts.outcome, 0) + 1
            cov["futures_observed"] += len(facts.futs)
            cov["task_executions_observed"] += sum(len(t["starts"]) for t in facts.tasks.values())
            cov["processes_observed"] += len(facts.procs)
            cov["ops_observed"] += len(facts.ops)
            cov["events_observed"] += len(hist.events)
            handed_ = facts.handed_out()
            for name_, f in facts.futs.items():
                d = f["done"]
                if d is None:
                    st = "pending" if name_ in handed_ else "submit_raised_or_open"
                else:
                    st = d["state"] + (":" + d["exc"]["type"] if d.get("exc") else "")
                cov["future_outcomes"][st] = cov["future_outcomes"].get(st, 0) + 1
            planned = [r for r in case["plan"].get("rules", []) if r.get("action", [""])[0] in ("sleep", "kill", "exit", "cexit", "signal")]
            cov["faults_planned"] += len(planned)
            fired = facts.fired(("sleep", "kill", "exit", "cexit", "signal"))
            cov["faults_fired"] += len(fired)
            for f in fired:
                pt = f.get("pt") or ["?", "?", 0]
                k = "%s:%s" % (pt[0], pt[1])
                cov["faults_fired_by_function"][k] = cov["faults_fired_by_function"].get(k, 0) + 1
            for p in facts.points:
                self._points.add((p.get("role"), p.get("thr"), tuple(p["pt"])))
            if facts.outcome == "hard_timeout":
                V.inconc("hard_timeout_without_stall_witness")
                try:
                    _sz = sum(os.path.getsize(os.path.join(hist.dir, f_)) for f_ in os.listdir(hist.dir) if os.path.isfile(os.path.join(hist.dir, f_)))
                except OSError:
                    _sz = 1 << 30
                if V.inconclusive.get("hard_timeout_without_stall_witness", 0) <= 2 and _sz < 1_500_000:
                    # kept for diagnosis only (never a verdict): something kept writing events until the hard limit
                    common.save_replay(self.prop, "inconclusive-hard-timeout-%d" % V.inconclusive["hard_timeout_without_stall_witness"], copy_dir=hist.dir)
                return facts
            viols = self.oracle(case, facts)
            if planned and not fired:
                V.inconc("planned_fault_not_reached")
            if viols:
                first = True
                case_replay = None
                for sig, text in viols:
                    name = "s%d-%s-%05d" % (seed, tier, cov["evaluations"])
                    f = V.match_known(sig)
                    if f is None and first:
                        case_replay = common.save_replay(self.prop, name, copy_dir=hist.dir)
                        first = False
                    elif f is not None and f["id"] not in known_replays:
                        known_replays.add(f["id"])
                        common.save_replay(self.prop, "known-" + f["id"], copy_dir=hist.dir)
                    replay = case_replay if f is None else None
                    V.violation(sig, text, replay)
            else:
                V.ok()
            key = self.nontrivial(case, facts)
            if key is not None:
                nontriv.add(key)
            if len(samples) < 6 or (viols and len(samples) < 12):
                s = summarize_case(case, facts)
                if viols:
                    s["violations"] = [t[:300] for _, t in viols[:3]]
                samples.append(s)
            return facts

        # ---- phase 1: base programs (profile mode), derive plans
        bases = self.bases(tier, rng)
        derived = []
        base_cases = []
        for b in bases:
            plan = {"profile": bool(self.profile), "rules": list(b.get("rules", []))}
            base_cases.append(mk_case(self.prop, b, plan, {"mode": "P"}, seed))

        def analyse_base(case, hist):
            facts = analyse(case, hist)
            if facts is None:
                return
            b = case["_base"]
            drng = random.Random(rng.random())
            for ri, (plan, meta) in enumerate(self.derive(b, facts, drng, tier)):
                meta = dict(meta, _bi=bases.index(b), _ri=ri)
                bb = b
                if "program" in plan:
                    bb = dict(b, program=plan.pop("program"))
                if "_timeouts" in plan:
                    bb = dict(bb, timeouts=dict(bb.get("timeouts", {}), **plan.pop("_timeouts")))
                derived.append(mk_case(self.prop, bb, plan, meta, seed))

        for c, b in zip(base_cases, bases):
            c["_base"] = b
        st1 = runner.run_cases(
            [dict(c) for c in base_cases],
            lambda case, hist: analyse_base(case, hist),
            jobs=self.jobs,
            budget_s=budget_s,
            scratch=os.path.join(scratch, "p1"),
            strip=("_base",),
        )
        # ---- cost control: cap derived cases that fall in a known (open) hang class
        capped = {}
        kept = []
        for c in derived:
            k = self.known_hang_class(c)
            if k is not None:
                capped[k] = capped.get(k, 0) + 1
                if capped[k] > self.hang_class_cap(k, tier):
                    continue
            kept.append(c)
        cov["capped_known_hang_class_cases"] = {k: v for k, v in capped.items()}
        derived = kept
        # ---- phase 2: derived cases
        # round-robin over the base programs (targeted family plans first), so that a short time budget thins every program's
        # plans out instead of dropping the programs at the end of the list (where some stratified families sit)
        derived.sort(key=lambda c: (0 if c["meta"].get("at") else 1, c["meta"].get("_ri", 0), c["meta"].get("_bi", 0)))
        rng.shuffle(derived) if self.shuffle_derived else None
        remaining = max(10.0, budget_s - (time.monotonic() - t0))
        st2 = runner.run_cases(derived, analyse, jobs=self.jobs, budget_s=remaining, scratch=os.path.join(scratch, "p2"))
        cov["points_discovered"] = len(self._points)
        cov["skipped_for_budget"] = st1.get("skipped_budget", 0) + st2.get("skipped_budget", 0)
        cov["distinct_nontrivial"] = len(nontriv)
        cov["rule"] = self.rule_text
        cov["samples"] = samples
        cov["known_findings_hit"] = {k: v[0] for k, v in V.known.items()}
        cov["inconclusive"] = dict(V.inconclusive)
        cov["isolation"] = "pid+mount namespaces (unshare), private tmpfs on /dev/shm" if runner.isolation_available() else "none (fallback)"
        cov.update(self.extra_coverage())
        floor_ok = len(nontriv) >= self.floor_nontrivial and cov["evaluations"] > 0
        rc = V.finish(floor_ok, "deciding monitors observed only %d non-trivial cases (floor %d)" % (len(nontriv), self.floor_nontrivial))
        cov["distinct_nontrivial"] = max(len(nontriv), 0)
        common.write_evidence(self.prop, tier, self.level, cov, time.monotonic() - t0, len(V.violations), self.assumptions)
        try:
            import shutil

            shutil.rmtree(scratch, ignore_errors=True)
        except Exception:
            pass
        return rc

    shuffle_derived = False

    def hang_class_cap(self, k, tier):
        if k == "F3":
            return 8 if tier == "quick" else 40
        return 2 if tier == "quick" else 6

    def known_hang_class(self, case):
        """Plans that are known to end in an open hang finding (40 s each): a worker
        death placed inside the result-queue put (F10)."""
        for r in case["plan"].get("rules", []):
            if r.get("role") == "worker" and r.get("action", [""])[0] in ("kill", "exit", "cexit") and r.get("qual") in ("SemLock.__exit__", "SimpleQueue.put"):
                return "F10"
        m = case.get("meta", {})
        t = (m.get("kw") or {}).get("timeout")
        if (m.get("ending") == "del" or m.get("how") == "del") and t is not None and t <= 0.2 and case["plan"].get("rules"):
            return "F3"  # executor collected + all workers idle out with pending work (open finding F3): may stall for 40 s
        return None

    def budget(self, tier):
        return 150 if tier == "quick" else 1800
