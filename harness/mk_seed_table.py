"""Rewrites section 12 of DESIGN.md from seeded/*/meta.json (python -m harness.mk_seed_table)."""
import json
import os

from . import common

HEAD = "## 12. Seeded changes and which checks catch them\n"


def main():
    rows = []
    d = os.path.join(common.VERIF, "seeded")
    for name in sorted(os.listdir(d)):
        mp = os.path.join(d, name, "meta.json")
        if not os.path.exists(mp):
            continue
        m = json.load(open(mp))
        caught = "; ".join("**%s**: %s" % (k, v) for k, v in (m.get("caught_by") or {}).items()) or ("**not caught** - " + m.get("not_caught_reason", ""))
        rows.append("| %s | %s | %s | %s | %s | %s |" % (name, m.get("property"), m.get("summary", "").replace("|", "/"), m.get("needs", "").replace("|", "/"), caught.replace("|", "/"), (m.get("missed_before") or "-").replace("|", "/")))
    n_missed = sum(1 for r in rows if not r.rstrip().endswith("| - |"))
    SUMMARY = (
        "Round 1 (ids `Cxxa/b`) covered all 20 properties; round 2 (`r2`) all 20 again with the first round's mechanisms excluded; round 3 (`r3`) "
        "C01-C03, C05-C09, C12, C13, C18, C20 with both earlier rounds excluded; round 4 (`r4`) the remaining ones (C04, C10, C11, C14-C17, C19) with all earlier mechanisms excluded. Of the %d changes kept, %d were first missed by the check of their property and led to "
        "the additions named in the last column; one (C14b) is still not caught (it is observationally indistinguishable through the API). Several agents also reported "
        "behaviour of the unchanged tree that contradicts a property: those remarks led to repairs F17, F20, F21, F22, F23 and to open findings F18, F26, F27 (section 10)." % (len(rows), n_missed)
    )
    txt = HEAD + "\n" + (
        "Each change below was written by an independent sub-agent that saw only the property text and a scratch worktree of the library (nothing of /verif), "
        "was confirmed here in a scratch worktree (its demonstration passes on the original tree and fails with the patch; the full unedited test suite still passes with the patch), "
        "and is kept under `seeded/<id>/` (patch.diff, demo, notes, meta.json). Checks were run against a scratch worktree with the patch applied (`harness/seed_eval.sh`), quick tier. "
        "The last column records what had to be strengthened when a change was first missed. " + SUMMARY + "\n\n"
        "| id | property | change | needs in order to manifest | caught by (clause) | first missed? what was strengthened |\n|---|---|---|---|---|---|\n" + "\n".join(rows) + "\n\n"
        "The `fix:` commits of section 10 double as regression seeds: `harness/revert_check.sh <commit> <check>` re-runs a check against a scratch worktree with one fix "
        "reverted (quick tier, seed 0). Validated this way: the `_resize` livelock fix is caught by C10/C01, the shutdown(wait=False) fix by C01, the eager feeder start by C05/C01, "
        "the submit wake-up order by C02 (second-wave scenario), the SemLock registration order by C13 (KP-mode), the cancelled-future fix by C06, the callable class wrapper by C16, "
        "the pickler-at-submit fix by C15, the feeder-thread leak fix (de484b1) by C20 (9 violations), the falsy-exception fix (3379a02) by C04 (20), the resize wake-up (7c02613) by C10 "
        "(stall), the `_feed` IndexError/EPIPE fix (d4feef7) by C04 (stall), the tracker sweep warning fix (1467094) by C13 (semaphore_outlives_tree), the initializer depth fix (c46ba04) "
        "by C19 (47), the sticky kill request (8023c31) by C06 (4 violations when run against the parent commit), the unpicklable-exception repair (00fe341) by C04 (2818 violations of a quick run on the parent commit, every program that draws task kind `raise_unpicklable`). The management-lock fix (749efe4) is reproduced by `python -m harness.findings_repro F7` on a reverted tree; 177a206 does not revert cleanly (a later commit touches "
        "the same lines) and was validated only when it was made.\n\n"
        "Two changes delivered by second-round agents were dropped because a repair made meanwhile turned them harmless (their demonstrations pass on the current tree with the patch applied): "
        "a C04 change that made `Queue._feed` treat EBADF/ECONNRESET from `dumps()` as a closed pipe (the d4feef7 repair handles pickling errors before that test), and a C19 change that "
        "captured the worker depth at construction time (it only mattered in the window before `_process_worker` recorded its depth, which c46ba04 closed).\n"
    )
    p = os.path.join(common.VERIF, "DESIGN.md")
    s = open(p).read()
    i = s.index(HEAD)
    s = s[:i] + txt
    open(p, "w").write(s)
    print("rows:", len(rows))


if __name__ == "__main__":
    main()
