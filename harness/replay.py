"""./check replay <dir> [--runs N]: re-run a saved case N times and re-evaluate its property's oracle.

OS scheduling is not reproduced, only the program, configuration, plan and seed: the report says
how many of the runs reproduce the violation."""
import importlib
import json
import os
import shutil
import sys

from . import common, runner
from .analysis import Facts


def main(path, runs=5):
    path = os.path.abspath(path)
    cj = os.path.join(path, "case.json")
    if not os.path.exists(cj):
        # in-process engines keep their own replay payloads
        for fn in sorted(os.listdir(path)):
            print("replay payload:", os.path.join(path, fn))
        print("this replay belongs to an in-process engine: re-run its check with the same VERIF_SEED, or see the payload above")
        return 0
    case = json.load(open(cj))
    prop = case.get("prop")
    mod = importlib.import_module("harness.checks.%s" % prop)
    chk = getattr(mod, prop)()
    # first: the recorded history itself
    F0 = Facts(runner.History(case, path))
    print("recorded history: outcome=%s, %d events" % (F0.outcome, len(F0.h.events)))
    for sig, text in chk.oracle(case, F0):
        print("  recorded violation [%s]:\n    %s" % (sig.get("clause"), text.replace("\n", "\n    ")[:3000]))
    scratch = common.scratch_root()
    n_viol = 0
    try:
        for i in range(runs):
            d = os.path.join(scratch, "r%d" % i)
            h = runner.run_case(case, d)
            if h.outcome == "infra":
                print("run %d: infrastructure failure: %s" % (i, (h.infra_error or "")[-300:]))
                continue
            F = Facts(h)
            viols = chk.oracle(case, F)
            fired = len(F.fired(("sleep", "kill", "exit", "cexit", "signal")))
            print("run %d: outcome=%s faults_fired=%d violations=%d %s" % (i, F.outcome, fired, len(viols), sorted({s.get("clause") for s, _ in viols})))
            n_viol += 1 if viols else 0
            shutil.rmtree(d, ignore_errors=True)
    finally:
        shutil.rmtree(scratch, ignore_errors=True)
    print("%d of %d re-runs reproduce a violation of %s" % (n_viol, runs, prop))
    return 1 if n_viol else 0
