"""Targeted reproductions of the OPEN findings (harness/known_findings.json): one small program + plan
per finding, built from the mechanism, run against common.REPO, witness stored under findings/<id>/.

    python -m harness.findings_repro            # all
    python -m harness.findings_repro F7 F10     # some

Exit code 0; prints for each finding whether the recorded history matches the finding's signature.
"""
import inspect
import json
import os
import shutil
import sys

from . import common, runner
from .analysis import Facts
from .oracles import clauses, props
from .treecheck import mk_case


def _rel(func, needle, nth=1):
    """Line offset (from co_firstlineno) of the nth source line of func containing needle."""
    lines, first = inspect.getsourcelines(func)
    code = func.__code__
    n = 0
    for i, l in enumerate(lines):
        if needle in l:
            n += 1
            if n == nth:
                return first + i - code.co_firstlineno
    raise LookupError("%r not found in %s" % (needle, func.__qualname__))


def cases():
    common.ensure_repo_on_path()
    import loky.backend.queues as lq
    import loky.backend.synchronize as ls
    import loky.process_executor as pe

    ok = {"k": "ok", "x": 1}
    slow = {"k": "ok", "x": 2, "arg": ["slow_pickle", 0.3]}
    out = {}
    # F10: worker dies holding the result queue's write lock right after its exit announcement was sent
    out["F10-dead-worker-holds-result-wlock"] = (
        "C01",
        {"threads": [[{"op": "new", "ex": "e", "kind": "plain", "kw": {"max_workers": 1, "timeout": 0.3}}, {"op": "submit", "ex": "e", "task": ok}, {"op": "wait", "futs": "all"},
                      {"op": "sleep", "d": 1.2}, {"op": "submit", "ex": "e", "task": ok}, {"op": "wait", "futs": "all"}]], "end": "return"},
        {"rules": [{"role": "worker", "proc": "LokyProcess-1", "thread": "user", "file": "backend/synchronize.py", "qual": "SemLock.__exit__", "rel": _rel(ls.SemLock.__exit__, "release"), "hit": 2, "action": ["exit", 0]}]},
        {},
    )
    # F7: worker killed between acquire and release of the management lock in its time-out branch
    out["F7-management-lock-held-by-dead-worker"] = (
        "C01",
        {"threads": [[{"op": "new", "ex": "e", "kind": "plain", "kw": {"max_workers": 1, "timeout": 0.2}}, {"op": "submit", "ex": "e", "task": ok}, {"op": "wait", "futs": "all"},
                      {"op": "sleep", "d": 1.0}, {"op": "shutdown", "ex": "e", "wait": True}]], "end": "return"},
        {"rules": [{"role": "worker", "proc": "LokyProcess-1", "thread": "user", "file": "process_executor.py", "qual": "_process_worker", "rel": _rel(pe._process_worker, "processes_management_lock.release()"), "hit": 1, "action": ["kill", "SIGKILL"]}]},
        {},
    )
    # F3: executor collected while work is pending and every worker idles out
    out["F3-executor-collected-all-workers-idle-out"] = (
        "C01",
        {"threads": [[{"op": "new", "ex": "e", "kind": "plain", "kw": {"max_workers": 1, "timeout": 0.05}}] + [{"op": "submit", "ex": "e", "task": slow} for _ in range(12)] + [{"op": "del", "ex": "e"}]], "end": "return"},
        {"rules": []},
        {"ending": "del", "kw": {"timeout": 0.05}},
    )
    # F16: fork start method, work still pending at interpreter exit, workers idled out
    out["F16-fork-context-cannot-respawn-at-interpreter-exit"] = (
        "C01",
        {"threads": [[{"op": "new", "ex": "e", "kind": "plain", "kw": {"max_workers": 1, "timeout": 0.05, "context": "fork"}}] + [{"op": "submit", "ex": "e", "task": slow} for _ in range(12)]], "end": "return"},
        {"rules": []},
        {},
    )
    # F8: the feeder thread runs the SemLock finalizer and interpreter exit cuts it between sem_unlink and UNREGISTER
    feed_ret = _rel(lq.Queue._feed, "close()")
    out["F8-semlock-finalizer-cut-in-feeder-thread"] = (
        "C13",
        {"threads": [[{"op": "new", "ex": "e", "kind": "plain", "kw": {"max_workers": 1, "timeout": 10}}, {"op": "submit", "ex": "e", "task": ok}, {"op": "wait", "futs": "all"},
                      {"op": "shutdown", "ex": "e", "wait": True}, {"op": "del", "ex": "e"}, {"op": "forget", "ex": ["e"]}]], "end": "return"},
        {"rules": [
            {"role": "driver", "proc": "*", "thread": "feeder", "file": "backend/queues.py", "qual": "Queue._feed", "rel": feed_ret + 1, "hit": 1, "action": ["sleep", 0.3]},
            {"role": "driver", "proc": "*", "thread": "feeder", "file": "backend/synchronize.py", "qual": "SemLock._cleanup", "rel": _rel(ls.SemLock._cleanup, "resource_tracker.unregister"), "hit": 1, "action": ["sleep", 1.5]},
            {"role": "driver", "proc": "*", "thread": "*", "file": "backend/synchronize.py", "qual": "SemLock._cleanup", "rel": 1, "hit": 0, "action": ["mark", "semlock_cleanup"]},
        ]},
        {"ending": "return", "crash": False},
    )
    # F24: a worker lingers, then dies, between acquire and release of the management lock in its time-out branch while
    # the client keeps submitting
    seq = []
    for i in range(14):
        seq += [{"op": "submit", "ex": "e", "task": {"k": "sleep", "d": 0.1}}, {"op": "wait", "futs": "all"}]
    rel = _rel(pe._process_worker, "processes_management_lock.release()")
    out["F24-dead-worker-holds-management-lock-submit-blocks"] = (
        "C01",
        {"threads": [[{"op": "new", "ex": "e", "kind": "plain", "kw": {"max_workers": 3, "timeout": 0.15}}] + seq + [{"op": "shutdown", "ex": "e", "wait": True}]], "end": "return"},
        {"rules": [{"role": "worker", "proc": "*", "thread": "user", "file": "process_executor.py", "qual": "_process_worker", "rel": rel, "hit": 1, "action": ["sleep", 0.6]},
                   {"role": "worker", "proc": "*", "thread": "user", "file": "process_executor.py", "qual": "_process_worker", "rel": rel, "hit": 1, "action": ["kill", "SIGKILL"]}]},
        {"kw": {"timeout": 0.15}},
    )
    return out


def main(argv):
    want = set(argv)
    V = {}
    scratch = common.scratch_root()
    for fid, (prop, prog, plan, meta) in cases().items():
        short = fid.split("-")[0]
        if want and short not in want and fid not in want:
            continue
        case = mk_case(prop, {"program": prog, "config": {}, "meta": dict(meta, gen="findings_repro", finding=fid)}, plan, {"mode": "R"}, 0)
        d = os.path.join(scratch, short)
        h = runner.run_case(case, d)
        F = Facts(h)
        viols = clauses.c01_progress(case, F) if prop == "C01" else props.c13(case, F)
        verd = common.Verdicts(prop)
        hit = None
        for sig, text in viols:
            f = verd.match_known(sig)
            if f is not None and f["id"] == fid:
                hit = (sig, text)
        dst = os.path.join(common.OUT, "findings", fid)
        if hit:
            shutil.rmtree(dst, ignore_errors=True)
            os.makedirs(dst)
            for fn in os.listdir(d):
                p = os.path.join(d, fn)
                if os.path.isfile(p) and os.path.getsize(p) < 2_000_000:
                    shutil.copy2(p, os.path.join(dst, fn))
            with open(os.path.join(dst, "violation.json"), "w") as f:
                json.dump({"signature": hit[0], "text": hit[1]}, f, indent=1, default=repr)
        print("%s: outcome=%s faults_fired=%d -> %s" % (fid, F.outcome, len(F.fired(("sleep", "kill", "exit", "cexit"))), "REPRODUCED (witness in findings/%s)" % fid if hit else "not reproduced in this run (%d other violations)" % len(viols)))
        V[fid] = bool(hit)
        shutil.rmtree(d, ignore_errors=True)
    shutil.rmtree(scratch, ignore_errors=True)
    return 0


if __name__ == "__main__":
    sys.exit(main(sys.argv[1:]))
