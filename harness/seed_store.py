"""Keep a confirmed seeded change under /verif/seeded/<label>/ (patch.diff, demonstration, meta.json)."""
import json
import os
import shutil
import sys


def store(src, label, meta):
    dst = os.path.join("/verif/seeded", label)
    os.makedirs(dst, exist_ok=True)
    for fn in os.listdir(src):
        if fn in ("patch.diff", "demo.py", "test_demo.py", "notes.md"):
            shutil.copy2(os.path.join(src, fn), os.path.join(dst, fn))
    with open(os.path.join(dst, "meta.json"), "w") as f:
        json.dump(meta, f, indent=1)


if __name__ == "__main__":
    src, label = sys.argv[1], sys.argv[2]
    meta = json.loads(sys.stdin.read())
    store(src, label, meta)
    print("stored", label)
