"""pid 1 of one case's private pid+mount namespaces.

Mounts a private tmpfs on /dev/shm, starts the driver, reaps every process of
the tree (orphans re-parent here), watches logical progress (bytes of event
log written by any process of the case), dumps stacks on a stall, and writes
final.json. When this process exits the kernel kills whatever is left of the
namespace, so no case can leak processes into the next one.
"""
import ctypes
import json
import os
import signal
import struct
import subprocess
import sys
import time

mono = time.monotonic

IN_CREATE = 0x100
IN_DELETE = 0x200
IN_MOVED_FROM = 0x40
IN_MOVED_TO = 0x80
IN_NONBLOCK = 0o4000


class Inotify:
    def __init__(self):
        self.libc = ctypes.CDLL(None, use_errno=True)
        self.fd = self.libc.inotify_init1(IN_NONBLOCK)
        self.wd = {}

    def add(self, path):
        if self.fd < 0:
            return
        wd = self.libc.inotify_add_watch(self.fd, path.encode(), IN_CREATE | IN_DELETE | IN_MOVED_FROM | IN_MOVED_TO)
        if wd >= 0:
            self.wd[wd] = path

    def read(self):
        out = []
        if self.fd < 0:
            return out
        while True:
            try:
                buf = os.read(self.fd, 65536)
            except (BlockingIOError, OSError):
                break
            if not buf:
                break
            i = 0
            while i + 16 <= len(buf):
                wd, mask, cookie, ln = struct.unpack_from("iIII", buf, i)
                name = buf[i + 16:i + 16 + ln].split(b"\0", 1)[0].decode(errors="replace")
                i += 16 + ln
                ev = "create" if mask & (IN_CREATE | IN_MOVED_TO) else "delete"
                out.append((self.wd.get(wd, "?"), ev, name))
        return out


def live_pids():
    out = []
    for n in os.listdir("/proc"):
        if n.isdigit() and int(n) != 1:
            out.append(int(n))
    return out


def proc_info(pid):
    d = {"pid": pid}
    for f in ("cmdline", "wchan", "stat"):
        try:
            with open("/proc/%d/%s" % (pid, f), "rb") as fh:
                v = fh.read().replace(b"\0", b" ").decode(errors="replace").strip()
        except OSError:
            v = None
        d[f] = v[:400] if v else v
    try:
        st = d.get("stat") or ""
        rp = st.rfind(")")
        fields = st[rp + 2:].split()
        d["state"] = fields[0]
        d["ppid"] = int(fields[1])
        d["utime"] = int(fields[11])
        d["stime"] = int(fields[12])
    except Exception:
        pass
    return d


def main():
    casedir = sys.argv[1]
    with open(os.path.join(casedir, "case.json")) as f:
        case = json.load(f)
    to = case.get("timeouts", {})
    hard_s = float(to.get("hard_s", 120))
    stall_s = float(to.get("stall_s", 40))
    tree_wait_s = float(to.get("tree_wait_s", 8))
    isolated = os.getpid() == 1

    initlog = os.open(os.path.join(casedir, "events.init.jsonl"), os.O_WRONLY | os.O_CREAT | os.O_APPEND, 0o644)

    def log(kind, **kw):
        kw["k"] = kind
        kw["t"] = mono()
        kw["pid"] = 1
        os.write(initlog, (json.dumps(kw, default=repr) + "\n").encode())

    shm = "/dev/shm"
    if isolated:
        r = subprocess.run(["mount", "-t", "tmpfs", "-o", "size=128m", "tmpfs", "/dev/shm"], capture_output=True)
        log("mount", rc=r.returncode, err=r.stderr.decode()[:200])
        if r.returncode != 0:
            isolated = False
    tmpd = os.path.join(casedir, "tmp")
    resd = os.path.join(casedir, "res")
    os.makedirs(tmpd, exist_ok=True)
    os.makedirs(resd, exist_ok=True)
    with open(os.path.join(casedir, "plan.json"), "w") as f:
        json.dump(case.get("plan", {}), f)

    ino = Inotify()
    ino.add(shm)
    ino.add(resd)

    verif = case["verif"]
    repo = case["repo"]
    env = dict(os.environ)
    for k in list(env):
        if k.startswith("LOKY_") or k in ("PYTHONFAULTHANDLER",):
            env.pop(k)
    env.update(
        {
            "PYTHONPATH": os.pathsep.join([os.path.join(verif, "harness", "site"), repo]),
            "LOKY_VERIF": "1",
            "LOKY_VERIF_DIR": casedir,
            "LOKY_VERIF_REPO": repo,
            "LOKY_VERIF_DRIVER": "lv_driver.py",
            "PYTHONHASHSEED": "0",
            "PYTHONDONTWRITEBYTECODE": "1",
            "TMPDIR": tmpd,
            "LOKY_VERIF_ISOLATED": "1" if isolated else "0",
        }
    )
    env.update(case.get("config", {}).get("env", {}))
    out = os.open(os.path.join(casedir, "stdout.txt"), os.O_WRONLY | os.O_CREAT | os.O_APPEND, 0o644)
    err = os.open(os.path.join(casedir, "stderr.txt"), os.O_WRONLY | os.O_CREAT | os.O_APPEND, 0o644)
    t0 = mono()
    drv_cmd = [case.get("python", sys.executable), os.path.join(verif, "harness", "site", "lv_driver.py"), casedir]
    if case.get("config", {}).get("driver_as_module"):
        # launched like `python -m package.module`: __main__.__spec__ is set
        drv_cmd = [case.get("python", sys.executable), "-m", "lv_driver", casedir]
    def _default_signals():
        # a check started in the background of a non-interactive shell inherits SIGINT/SIGQUIT = SIG_IGN: the driver must see
        # the dispositions of an ordinary foreground program whatever way the check was launched
        for s_ in (signal.SIGINT, signal.SIGQUIT, signal.SIGTERM, signal.SIGPIPE, signal.SIGCHLD):
            signal.signal(s_, signal.SIG_DFL)
        signal.pthread_sigmask(signal.SIG_SETMASK, set())

    drv = subprocess.Popen(
        drv_cmd,
        stdin=subprocess.DEVNULL,
        stdout=out,
        stderr=err,
        env=env,
        cwd=casedir,
        close_fds=True,
        preexec_fn=_default_signals,
    )
    os.close(out)
    os.close(err)
    log("driver_started", dpid=drv.pid)

    reaps = []
    driver_status = None
    driver_exit_t = None
    last_progress = -1
    last_progress_t = mono()
    outcome = "ended"
    stall = None

    def progress():
        tot = 0
        try:
            for n in os.listdir(casedir):
                if n.startswith("events.") and n != "events.init.jsonl":
                    try:
                        tot += os.stat(os.path.join(casedir, n)).st_size
                    except OSError:
                        pass
        except OSError:
            pass
        return tot

    def reap_all():
        nonlocal driver_status, driver_exit_t
        while True:
            try:
                pid, sts = os.waitpid(-1, os.WNOHANG)
            except ChildProcessError:
                return
            if pid == 0:
                return
            if os.WIFSIGNALED(sts):
                code = -os.WTERMSIG(sts)
            else:
                code = os.WEXITSTATUS(sts)
            rec = {"pid": pid, "code": code, "t": mono()}
            reaps.append(rec)
            log("reap", rpid=pid, code=code)
            if pid == drv.pid:
                driver_status = code
                driver_exit_t = rec["t"]
                drv.returncode = code

    shm_events = []
    while True:
        reap_all()
        for w, ev, name in ino.read():
            shm_events.append({"dir": w, "ev": ev, "name": name, "t": mono()})
        now = mono()
        pids = live_pids() if isolated else ([drv.pid] if driver_status is None else [])
        if driver_status is not None and not pids:
            break
        p = progress()
        if p != last_progress:
            last_progress = p
            last_progress_t = now
        if driver_status is None and now - last_progress_t > stall_s:
            outcome = "stall"
            # witness: stacks of every python process of the tree + /proc state
            infos = [proc_info(x) for x in pids]
            for x in pids:
                if os.path.exists(os.path.join(casedir, "stacks.%d.txt" % x)):
                    try:
                        os.kill(x, signal.SIGUSR2)
                    except OSError:
                        pass
            time.sleep(1.0)
            infos2 = {i["pid"]: i for i in (proc_info(x) for x in pids)}
            for i in infos:
                j = infos2.get(i["pid"], {})
                i["cpu_ticks_in_1s"] = (j.get("utime", 0) + j.get("stime", 0)) - (i.get("utime", 0) + i.get("stime", 0))
            stall = {"t": now, "silent_s": now - last_progress_t, "procs": infos, "driver_alive": driver_status is None}
            log("stall", **stall)
            break
        if driver_exit_t is not None and now - driver_exit_t > tree_wait_s:
            outcome = "survivors"
            break
        if now - t0 > hard_s:
            outcome = "hard_timeout"
            break
        time.sleep(0.01)

    pids = live_pids() if isolated else []
    survivors = [proc_info(x) for x in pids]
    try:
        shm_list = sorted(os.listdir(shm)) if isolated else None
    except OSError:
        shm_list = None
    try:
        res_list = sorted(os.listdir(resd))
    except OSError:
        res_list = None
    final = {
        "outcome": outcome,
        "isolated": isolated,
        "driver_pid": drv.pid,
        "driver_status": driver_status,
        "driver_exit_t": driver_exit_t,
        "t0": t0,
        "t_end": mono(),
        "reaps": reaps,
        "survivors": survivors,
        "shm": shm_list,
        "res": res_list,
        "fs_events": shm_events,
        "stall": stall,
    }
    with open(os.path.join(casedir, "final.json.tmp"), "w") as f:
        json.dump(final, f, default=repr)
    os.replace(os.path.join(casedir, "final.json.tmp"), os.path.join(casedir, "final.json"))
    if not isolated and driver_status is None:
        try:
            drv.kill()
        except OSError:
            pass
    os._exit(0)


if __name__ == "__main__":
    main()
