"""Scenario interpreter: the *client* of loky in a case.

Runs the case's program (threads of ops over named executors/futures) against
the real loky from the working tree and records the history at the client
boundary: call / ret / exc of every op, terminal state of every future
(done-callback), snapshots at quiescent points.
"""
import functools
import gc
import json
import os
import signal
import sys
import threading
import time
import warnings

import _lv
import lv_tasks

log = _lv.log
LV_MAIN_MARKER = "driver-main"

CASEDIR = sys.argv[1]
with open(os.path.join(CASEDIR, "case.json")) as _f:
    CASE = json.load(_f)
PROGRAM = CASE["program"]
CONFIG = CASE.get("config", {})
RESDIR = os.path.join(CASEDIR, "res")

# module-level side effect: must never be repeated by a worker under the
# default start method (C18)
with open(os.path.join(CASEDIR, "main_ran.txt"), "a") as _f:
    _f.write("%d\n" % os.getpid())

warnings.simplefilter("always")

if CONFIG.get("hide_psutil"):
    import loky.backend.utils as _lu

    _lu.psutil = None

import loky  # noqa: E402
from loky import ProcessPoolExecutor, get_reusable_executor  # noqa: E402
from loky.backend import get_context  # noqa: E402
import loky.process_executor as pe  # noqa: E402

if CONFIG.get("send_limit"):
    # a transport that refuses messages above a size, the way Connection.send_bytes refuses sizes it cannot encode
    # (struct.error: the "too large to send" case of the property, unreachable with real data on this Python below 2**63 bytes).
    # Only a queue feeder thread sends that much from this process: the call queue's.
    import multiprocessing.connection as _mc
    import struct as _struct
    import threading as _thr

    def _limited_send_bytes(self, buf, _orig=_mc.Connection._send_bytes, _lim=int(CONFIG["send_limit"])):
        if len(buf) > _lim and _thr.current_thread().name.startswith("QueueFeederThread"):
            raise _struct.error("'i' format requires -2147483648 <= number <= 2147483647")
        return _orig(self, buf)

    _mc.Connection._send_bytes = _limited_send_bytes

if CONFIG.get("sigchld_ignore"):
    # a host application that ignores SIGCHLD: the kernel reaps children itself, waitpid gives ECHILD
    signal.signal(signal.SIGCHLD, signal.SIG_IGN)

if CONFIG.get("main_level_tracked"):
    # a tracked operation at module level of the main script: re-executed by loky_init_main workers
    LV_GLOBAL_LOCK = get_context("loky").Lock()

EXECS = {}  # name -> executor
MGRS = {}  # name -> manager thread objects seen (no executor reference kept)
EXINFO = {}  # name -> dict kept after del (pids seen, id)
FUTS = {}  # name -> future
FUT_LOCK = threading.Lock()
BARRIERS = {}
OBJS = {}  # synchronisation primitives etc. (C13)
CANARIES = []


# ------------------------------------------------------------------ helpers
def exc_info(e):
    c = e.__cause__
    return {
        "type": type(e).__name__,
        "mod": type(e).__module__,
        "mro": [t.__name__ for t in type(e).__mro__],
        "args": [a if isinstance(a, (int, float, str, bool, type(None))) else repr(a) for a in e.args],
        "str": str(e)[:1500],
        "cause_type": type(c).__name__ if c is not None else None,
        "cause_str": str(c)[:1500] if c is not None else None,
        "is_cf_broken": _is_cf_broken(e),
    }


def _is_cf_broken(e):
    from concurrent.futures.process import BrokenProcessPool as CFB

    return isinstance(e, CFB)


def proc_state(pid):
    try:
        with open("/proc/%d/stat" % pid) as f:
            s = f.read()
        rp = s.rfind(")")
        fl = s[rp + 2:].split()
        return fl[0], int(fl[1])
    except (OSError, ValueError, IndexError):
        return None, None


def children_census():
    """Children of this process incl. zombies, read-only from /proc."""
    me = os.getpid()
    out = []
    for n in os.listdir("/proc"):
        if not n.isdigit():
            continue
        st, ppid = proc_state(int(n))
        if ppid == me:
            try:
                with open("/proc/%s/cmdline" % n, "rb") as f:
                    cmd = f.read().replace(b"\0", b" ").decode(errors="replace")[:160]
            except OSError:
                cmd = ""
            out.append({"pid": int(n), "state": st, "cmd": cmd})
    return out


def descendants(root):
    """All live descendants of root (read-only)."""
    kids = {}
    for n in os.listdir("/proc"):
        if n.isdigit():
            st, ppid = proc_state(int(n))
            if ppid is not None:
                kids.setdefault(ppid, []).append((int(n), st))
    out = []
    todo = [root]
    while todo:
        p = todo.pop()
        for c, st in kids.get(p, []):
            out.append((c, st))
            todo.append(c)
    return out


def ns_pids():
    """Every process visible in the case's pid namespace: [pid, state, ppid]."""
    out = []
    for n in os.listdir("/proc"):
        if n.isdigit():
            st, ppid = proc_state(int(n))
            if st is not None:
                out.append([int(n), st, ppid])
    return out


def fd_census():
    kinds = {}
    detail = {}
    for n in os.listdir("/proc/self/fd"):
        try:
            t = os.readlink("/proc/self/fd/" + n)
        except OSError:
            continue
        if t.startswith("/proc/") and t.endswith("/fd"):
            continue  # the listing's own descriptor
        k = t.split(":")[0] if (t.startswith("pipe:") or t.startswith("socket:") or t.startswith("anon_inode:")) else "file"
        kinds[k] = kinds.get(k, 0) + 1
        detail[n] = t
    return kinds, detail


def shm_list():
    try:
        return sorted(os.listdir("/dev/shm"))
    except OSError:
        return None


def thread_names():
    return sorted(t.name for t in threading.enumerate())


def ex_snapshot(ex):
    if ex is None:
        return None
    d = {"id": id(ex), "executor_id": getattr(ex, "executor_id", None), "cls": type(ex).__name__}
    try:
        d["max_workers"] = ex._max_workers
        fl = ex._flags
        d["broken"] = type(fl.broken).__name__ if fl.broken is not None else None
        d["shutdown"] = bool(fl.shutdown)
        pids = sorted(list(ex._processes))
        d["pids"] = pids
        d["alive"] = [p for p in pids if proc_state(p)[0] not in (None, "Z")]
        d["pending"] = len(ex._pending_work_items)
        d["running"] = len(ex._running_work_items)
        d["work_ids"] = ex._work_ids.qsize()
        m = ex._executor_manager_thread
        d["mgr_started"] = m is not None
        d["mgr_alive"] = bool(m is not None and m.is_alive())
        d["timeout"] = ex._timeout
        cq = ex._call_queue
        if cq is not None:
            d["queue_max"] = cq._maxsize
            try:
                d["queue_sem"] = cq._sem.get_value()
            except Exception:
                d["queue_sem"] = None
    except Exception as e:  # snapshot must never disturb the run
        d["snap_err"] = repr(e)
    return d


def remember(name, ex):
    info = EXINFO.setdefault(name, {"pids": set(), "ids": set(), "procs": {}})
    try:
        info["pids"].update(list(ex._processes))
        if CONFIG.get("keep_procs"):
            info["procs"].update(dict(ex._processes))
        info["ids"].add(id(ex))
        m = ex._executor_manager_thread
        if m is not None:
            MGRS.setdefault(name, [])
            if m not in MGRS[name]:
                MGRS[name].append(m)
    except Exception:
        pass


def make_initializer(spec):
    if not spec:
        return {}
    cf = spec.get("counter_file")
    if cf:
        cf = cf.replace("$CASE", CASEDIR)
    tok = spec.get("token")
    if spec.get("unpicklable"):
        tok = threading.Lock()  # the process object cannot be pickled: every spawn fails
    return {
        "initializer": lv_tasks.init,
        "initargs": (tok, cf, spec.get("fail_on"), spec.get("leak0", False), spec.get("fail_exc", "RuntimeError"), spec.get("slow_exit", 0)),
    }


REDUCER_MARKS = {}


def build_kw(kw):
    kw = dict(kw or {})
    out = {}
    for k, v in kw.items():
        if k == "initializer":
            out.update(make_initializer(v))
        elif k == "context":
            out[k] = v if (v is None or CONFIG.get("context_as_str")) else get_context(v)
        else:
            out[k] = v
    return out


def fut_callback(name, fut):
    # first a record that touches no loky code: describing the outcome below formats the exception's cause
    # (_RemoteTraceback.__str__), where an injected delay may hold this thread - a daemon thread when the future is resolved
    # by the queue feeder - until interpreter exit cuts it
    log("fut_resolved", fut=name)
    try:
        if fut.cancelled():
            log("fut_done", fut=name, state="cancelled")
            return
        e = fut.exception()
        if e is not None:
            log("fut_done", fut=name, state="exception", exc=exc_info(e))
        else:
            log("fut_done", fut=name, state="result", value=fut.result())
    except BaseException as ex:  # noqa
        log("fut_done", fut=name, state="callback_error", err=repr(ex))


CB_COUNT = [0]


def resubmit_cb(name, exname, fut):
    """From inside the done-callback of a future that failed with the pool's error, submit again:
    the pool must refuse (C02: every later submit raises that same error)."""
    try:
        if fut.cancelled() or fut.exception() is None or not _is_cf_broken(fut.exception()):
            return
    except BaseException:
        return
    CB_COUNT[0] += 1
    if CB_COUNT[0] > 4:
        return
    run_op({"op": "submit", "ex": exname, "task": {"k": "ok", "x": -1}, "id": "cb.%s.%d" % (name, CB_COUNT[0]), "from_callback": True}, Ctx(97))


CHAIN_COUNT = [0]
WRAPPED = {}
WRAPPED_FUTS = {}


def chain_cb(name, exname, fut):
    """The joblib dispatch pattern: whatever the outcome of this future, its done-callback submits the next
    task to the same executor (from whichever thread resolves the future: manager, feeder, submitter)."""
    with FUT_LOCK:
        CHAIN_COUNT[0] += 1
        n = CHAIN_COUNT[0]
    if n > 40:
        return
    run_op({"op": "submit", "ex": exname, "task": {"k": "ok", "x": -2}, "id": "chain.%s.%d" % (name, n), "from_callback": True}, Ctx(96))


def factory_cb(name, kw, fut):
    """A done-callback (run by the manager thread of the instance in use) that asks the factory for an executor with
    other arguments: the call cannot complete (a thread cannot join itself); what matters is the state it leaves behind."""
    try:
        get_reusable_executor(**build_kw(kw))
        log("factory_cb", fut=name, res="ok")
    except BaseException as e:  # noqa
        log("factory_cb", fut=name, res=type(e).__name__, msg=str(e)[:200])


def register_future(name, fut, raising_cb=False, resubmit=None, slow_cb=None, chain=None, factory=None):
    with FUT_LOCK:
        FUTS[name] = fut
    if factory:
        fut.add_done_callback(functools.partial(factory_cb, name, factory))
    if chain:
        fut.add_done_callback(functools.partial(chain_cb, name, chain))
    if slow_cb:

        def slow(f, d=slow_cb):
            log("slow_cb", fut=name, d=d)
            time.sleep(d)

        fut.add_done_callback(slow)
    if raising_cb:

        def bad_cb(f):
            log("bad_cb_called", fut=name)
            raise SystemExit("callback raises")

        fut.add_done_callback(bad_cb)
    fut.add_done_callback(functools.partial(fut_callback, name))
    if resubmit:
        fut.add_done_callback(functools.partial(resubmit_cb, name, resubmit))


# ------------------------------------------------------------------ ops
class Ctx:
    def __init__(self, tindex):
        self.tindex = tindex
        self.n = 0

    def opid(self):
        self.n += 1
        return "t%d.%d" % (self.tindex, self.n)


def run_ops(ops, ctx):
    for op in ops:
        run_op(op, ctx)


def run_op(op, ctx):
    oid = op.get("id") or ctx.opid()
    kind = op["op"]
    fn = OPS[kind]
    log("call", op=kind, oid=oid, a={k: v for k, v in op.items() if k not in ("body",)})
    try:
        r = fn(op, oid, ctx)
    except BaseException as e:  # noqa
        log("exc", op=kind, oid=oid, exc=exc_info(e))
        if isinstance(e, (KeyboardInterrupt,)) and op.get("reraise"):
            raise
        return None
    log("ret", op=kind, oid=oid, r=r)
    return r


def op_new(op, oid, ctx):
    kw = build_kw(op.get("kw"))
    if op.get("kind", "plain") == "plain":
        ex = ProcessPoolExecutor(**kw)
    else:
        ex = get_reusable_executor(**kw)
    EXECS[op["ex"]] = ex
    remember(op["ex"], ex)
    return ex_snapshot(ex)


def op_get_reusable(op, oid, ctx):
    name = op["ex"]
    prev = EXECS.get(op.get("prev_ex", name))
    before = ex_snapshot(prev)
    prev_id = id(prev) if prev is not None else None
    prev_pids = sorted(list(prev._processes)) if prev is not None else []
    prev_mgr = prev._executor_manager_thread if prev is not None else None
    if prev is not None:
        remember(name, prev)
    del prev
    log("snap_before", oid=oid, ex=name, snap=before, glob=ex_snapshot(__import__("loky.reusable_executor").reusable_executor._executor))
    kw = build_kw(op.get("kw"))
    if op.get("warn_as_error"):
        # the caller runs this call with warnings turned into errors (pytest -W error, a strict application)
        with warnings.catch_warnings():
            warnings.simplefilter("error")
            ex = get_reusable_executor(**kw)
    else:
        ex = get_reusable_executor(**kw)
    after = ex_snapshot(ex)
    # liveness of a replaced instance at return (read-only /proc + thread flag)
    replaced = None
    if prev_id is not None and id(ex) != prev_id:
        replaced = {
            "pids_alive": [p for p in prev_pids if proc_state(p)[0] not in (None, "Z")],
            "pids_zombie": [p for p in prev_pids if proc_state(p)[0] == "Z"],
            "mgr_alive": bool(prev_mgr is not None and prev_mgr.is_alive()),
            "ns": ns_pids(),
        }
    del prev_mgr
    EXECS[name] = ex
    remember(name, ex)
    return {"before": before, "after": after, "same": prev_id == id(ex), "replaced": replaced}


def op_submit(op, oid, ctx):
    ex = EXECS[op["ex"]]
    spec = op["task"]
    tid = op.get("tid") or oid
    fname = op.get("fut") or oid
    if spec.get("dir") == "$RES":
        spec = dict(spec, dir=RESDIR)
    fn = lv_tasks.run
    w = op.get("wrapped")
    if w:
        # the same wrapped stateful callable is submitted again and again while the parent changes its state in between
        if w["obj"] not in WRAPPED:
            from loky import wrap_non_picklable_objects

            o = lv_tasks.Stateful(0)
            WRAPPED[w["obj"]] = (o, wrap_non_picklable_objects(o, keep_wrapper=bool(w.get("keep_wrapper", True))))
        o, fn = WRAPPED[w["obj"]]
        if "set" in w and w["set"] != o.k:
            # arguments are pickled by the feeder thread some time after submit() returned: changing the object while an
            # earlier submission of it may still be unpickled is the caller's own race. Change it only once they are done.
            for pf in WRAPPED_FUTS.get(w["obj"], []):
                try:
                    pf.exception(timeout=60)
                except BaseException:
                    pass
            WRAPPED_FUTS[w["obj"]] = []
            o.k = w["set"]
        exp = lv_tasks.expected(o.effective(spec), tid)
    else:
        exp = lv_tasks.expected(spec, tid)
    log("submit_call", oid=oid, ex=op["ex"], exid=id(ex), fut=fname, tid=tid, spec=spec, exp=exp,
        pickler=_pickler_name())
    fut = ex.submit(fn, spec, tid, *lv_tasks.make_args(spec))
    if w:
        WRAPPED_FUTS.setdefault(w["obj"], []).append(fut)
    register_future(fname, fut, raising_cb=bool(op.get("raising_cb")), resubmit=(op["ex"] if op.get("resubmit_on_break") else None), slow_cb=op.get("slow_cb"), chain=(op["ex"] if op.get("chain_cb") else None), factory=op.get("factory_cb"))
    remember(op["ex"], ex)
    return {"fut": fname}


def _pickler_name():
    try:
        from loky.backend.reduction import get_loky_pickler_name

        return get_loky_pickler_name()
    except Exception:
        return None


def op_map(op, oid, ctx):
    ex = EXECS[op["ex"]]
    iters = op["iters"]
    kw = {}
    if "chunksize" in op:
        kw["chunksize"] = op["chunksize"]

    def iterables():
        if op.get("shared_iter"):
            it = iter(iters[0])  # the same iterator passed several times (grouper idiom)
            return [it] * op["shared_iter"]
        return iters

    if op.get("stop_mod"):
        fn, rfn = functools.partial(lv_tasks.mapfn_stop, oid, op["stop_mod"]), functools.partial(lv_tasks.mapfn_stop_ref, oid, op["stop_mod"])
    else:
        fn, rfn = functools.partial(lv_tasks.mapfn, oid), functools.partial(lv_tasks.mapfn_ref, oid)
    ref = list(map(rfn, *iterables()))  # (a fn raising StopIteration ends builtin map's output there)
    try:
        got = list(ex.map(fn, *iterables(), **kw))
    except BaseException as e:  # noqa
        if op.get("stop_mod"):
            # raising instead of ending silently is accepted for a function that raises StopIteration
            return {"equal": True, "n": None, "raised": type(e).__name__, "got": None, "ref": None}
        raise
    return {"equal": got == ref, "n": len(got), "got": got if got != ref else None, "ref": ref if got != ref else None}


def op_cancel(op, oid, ctx):
    f = FUTS[op["fut"]]
    return {"cancelled": f.cancel()}


def op_wait(op, oid, ctx):
    names = op.get("futs", "all")
    if names == "all":
        with FUT_LOCK:
            names = list(FUTS)
    n = 0
    seen = set()
    while True:
        for nm in names:
            if nm in seen:
                continue
            seen.add(nm)
            f = FUTS.get(nm)
            if f is None:
                continue
            try:
                f.exception(timeout=op.get("timeout"))
            except BaseException:  # cancelled / timeout: terminal state is logged by the callback
                pass
            n += 1
        if op.get("futs", "all") != "all":
            break
        with FUT_LOCK:  # futures submitted meanwhile by done-callbacks (chain_cb)
            names = [x for x in FUTS if x not in seen]
        if not names:
            break
    return {"n": n}


def op_result(op, oid, ctx):
    f = FUTS[op["fut"]]
    return {"value": f.result(timeout=op.get("timeout"))}


def op_shutdown(op, oid, ctx):
    ex = EXECS[op["ex"]]
    remember(op["ex"], ex)
    kw = {}
    if "wait" in op:
        kw["wait"] = op["wait"]
    if "kill_workers" in op:
        kw["kill_workers"] = op["kill_workers"]
    ex.shutdown(**kw)
    return after_shutdown_snapshot(op["ex"], ex)


def exitcodes(name):
    """Exit codes already collected by loky's own join()s: plain attribute reads, no poll."""
    out = {}
    for pid, p in EXINFO.get(name, {}).get("procs", {}).items():
        try:
            out[str(pid)] = p._popen.returncode
        except Exception:
            out[str(pid)] = "?"
    return out


def after_shutdown_snapshot(name, ex):
    info = EXINFO.get(name, {"pids": set()})
    pids = sorted(info["pids"])
    tree = []
    return {
        "snap": ex_snapshot(ex),
        "exitcodes": exitcodes(name),
        "threads": thread_names(),
        "pids_alive": [p for p in pids if proc_state(p)[0] not in (None, "Z")],
        "pids_zombie": [p for p in pids if proc_state(p)[0] == "Z"],
        "children": children_census(),
        "ns": ns_pids(),
    }


def op_with(op, oid, ctx):
    ex = EXECS[op["ex"]]
    with ex:
        run_ops(op.get("body", []), ctx)
    return after_shutdown_snapshot(op["ex"], ex)


def op_del(op, oid, ctx):
    name = op["ex"]
    ex = EXECS.pop(name, None)
    if ex is not None:
        remember(name, ex)
    del ex
    gc.collect()
    return {}


def op_join_mgr(op, oid, ctx):
    n = 0
    for m in list(MGRS.get(op["ex"], [])):
        m.join()
        n += 1
    name = op["ex"]
    info = EXINFO.get(name, {"pids": set()})
    pids = sorted(info["pids"])
    return {
        "joined": n,
        "exitcodes": exitcodes(name),
        "threads": thread_names(),
        "pids_alive": [p for p in pids if proc_state(p)[0] not in (None, "Z")],
        "pids_zombie": [p for p in pids if proc_state(p)[0] == "Z"],
        "snap": ex_snapshot(EXECS.get(name)),
    }


def op_kill(op, oid, ctx):
    ex = EXECS[op["ex"]]
    pids = sorted(list(ex._processes))
    which = op.get("which", 0)
    if which == "all":
        targets = pids
    elif isinstance(which, int):
        targets = [pids[which % len(pids)]] if pids else []
    else:
        targets = []
    sig = getattr(signal, op.get("sig", "SIGKILL"))
    done = []
    for p in targets:
        log("fault", kind="ext_kill", target=p, sig=op.get("sig", "SIGKILL"), role="driver")
        try:
            os.kill(p, sig)
            done.append(p)
        except OSError:
            pass
    return {"killed": done}


def op_sleep(op, oid, ctx):
    time.sleep(op["d"])
    return {}


def op_barrier(op, oid, ctx):
    b = BARRIERS[op["name"]]
    b.wait()
    return {}


def op_quiesce(op, oid, ctx):
    """Snapshot at a point the program claims is quiescent (all futures of the
    named executors are done). Bounded settle: bookkeeping is updated by the
    manager thread just after the future is resolved."""
    names = op.get("ex") or list(EXECS)
    snaps = {}
    deadline = time.monotonic() + 5.0
    while True:
        snaps = {n: ex_snapshot(EXECS.get(n)) for n in names}
        settled = all(
            s is None or s.get("snap_err") or (s["pending"] == 0 and s["running"] == 0 and s["work_ids"] == 0
                                               and (s.get("queue_sem") is None or s.get("queue_sem") == s.get("queue_max")))
            for s in snaps.values()
        )
        if settled or time.monotonic() > deadline or not op.get("settle", True):
            break
        time.sleep(0.01)
    return {"snaps": snaps, "settled": settled, "threads": thread_names(), "children": children_census(), "shm": shm_list()}


def op_census(op, oid, ctx):
    gc.collect()
    # bounded settle for asynchronous releases (feeder thread exit, finalizers)
    deadline = time.monotonic() + op.get("grace", 3.0)
    prev = None
    while True:
        kinds, detail = fd_census()
        cur = {
            "fds": kinds,
            "nfds": sum(kinds.values()),
            "threads": thread_names(),
            "children": children_census(),
            "shm": shm_list(),
        }
        key = json.dumps(cur, sort_keys=True)
        # a queue's feeder thread is a daemon that is told to stop but never joined: wait (bounded) for it to go
        waiting_feeder = (bool(op.get("after_shutdown")) or bool(op.get("tag"))) and any(t.startswith("QueueFeederThread") for t in cur["threads"])
        if (key == prev and not waiting_feeder) or time.monotonic() > deadline:
            cur["fd_detail"] = detail
            return cur
        prev = key
        time.sleep(0.15)
        gc.collect()


def op_ns(op, oid, ctx):
    """Processes of the namespace other than init, this driver and its trackers,
    after a bounded settle (SIGKILL delivery to non-children is asynchronous)."""
    me = os.getpid()
    deadline = time.monotonic() + op.get("grace", 3.0)
    while True:
        ns = ns_pids()
        mine = {c["pid"] for c in children_census() if "resource_tracker" in c["cmd"]}
        rest = [x for x in ns if x[0] not in (1, me) and x[0] not in mine and x[1] != "Z"]
        if not rest or time.monotonic() > deadline:
            return {"ns": ns, "rest": rest}
        time.sleep(0.02)


def op_forget(op, oid, ctx):
    """Drop every reference the driver itself keeps (C20: only loky's own retention may show)."""
    with FUT_LOCK:
        FUTS.clear()
    EXINFO.clear()
    MGRS.clear()
    for n in op.get("ex", []):
        EXECS.pop(n, None)
    gc.collect()
    return {}


def op_repeat(op, oid, ctx):
    for i in range(op["n"]):
        run_ops(op["body"], ctx)
    return {"n": op["n"]}


def op_exitstatus(op, oid, ctx):
    """Bare LokyProcesses that end themselves in a given way; Process.exitcode and
    the sentinel are compared by the oracle with what the child applied to itself."""
    from multiprocessing.connection import wait as mpwait

    c = get_context(op.get("ctx", "loky"))
    out = []
    batch = op.get("batch", 12)
    todo = list(op["ways"])
    while todo:
        cur, todo = todo[:batch], todo[batch:]
        procs = []
        for how, code in cur:
            p = c.Process(target=lv_tasks.die_target, args=(how, code, op.get("hold", 0.15)))
            p.start()
            procs.append((how, code, p, time.monotonic()))
        # sentinel must not be ready while the child is alive (children hold >= hold seconds)
        early = []
        for how, code, p, t0 in procs:
            ready = bool(mpwait([p.sentinel], 0))
            st, _pp = proc_state(p.pid)
            early.append([ready, st, time.monotonic() - t0])
        for k, ((how, code, p, t0), e) in enumerate(zip(procs, early)):
            timed = k % 2 == 1
            if timed:
                # the other documented way of collecting a process: wait for its sentinel, then join with a time limit;
                # once the sentinel has fired the status must be available
                mpwait([p.sentinel], 60)
                p.join(timeout=20)
            else:
                p.join()
            ready_after = bool(mpwait([p.sentinel], 0))
            out.append({"how": how, "code": code, "exitcode": p.exitcode, "timed_join": timed, "alive_after_join": p.is_alive(), "sentinel_early": e[0], "state_early": e[1], "age_early": round(e[2], 3), "sentinel_after": ready_after, "pid": p.pid})
    return {"results": out}


def op_set_pickler(op, oid, ctx):
    from loky import set_loky_pickler

    set_loky_pickler(op.get("name"))
    return {"name": _pickler_name()}


def op_mk(op, oid, ctx):
    ctxname = op.get("ctx", "loky")
    c = get_context(ctxname)
    before = shm_list()
    t = op["type"]
    if t == "Semaphore":
        o = c.Semaphore(op.get("n", 1))
    elif t == "BoundedSemaphore":
        o = c.BoundedSemaphore(op.get("n", 1))
    elif t == "Queue":
        o = c.Queue(op.get("n", 0))
    else:
        o = getattr(c, t)()
    OBJS[op["obj"]] = o
    if t in ("Queue", "SimpleQueue") and op.get("use"):
        o.put(("x", 1))
        o.get()
    after = shm_list()
    names = sem_names(o)
    OBJ_NAMES[op["obj"]] = names if names else (set(after or []) - set(before or []))
    return {"before": before, "shm": after, "names": sorted(OBJ_NAMES[op["obj"]])}


OBJ_NAMES = {}


def sem_names(o, depth=0):
    """/dev/shm entries of the named semaphores an object owns (read from the object itself)."""
    out = set()
    sl = getattr(o, "_semlock", None)
    if sl is not None and getattr(sl, "name", None):
        out.add("sem." + sl.name.lstrip("/"))
    if depth < 2:
        for attr in ("_lock", "_cond", "_flag", "_sleeping_count", "_woken_count", "_wait_semaphore", "_rlock", "_wlock", "_sem"):
            x = getattr(o, attr, None)
            if x is not None:
                out |= sem_names(x, depth + 1)
    return out


def op_drop(op, oid, ctx):
    # the object may be under construction in another thread of the program (concurrent first use, possibly slowed by the
    # injector): dropping means releasing the finished object
    _t0 = time.monotonic()
    while op["obj"] not in OBJS and time.monotonic() - _t0 < 15:
        time.sleep(0.01)
    o = OBJS.pop(op["obj"], None)
    if op.get("pre_unlink"):
        # the names are removed behind the object's back first (user code calling sem_unlink, a /dev/shm reaper): the
        # object's own disposal must cope and must still take the names off the tracker's books
        import _multiprocessing

        n_un = 0
        for nm in sorted(OBJ_NAMES.get(op["obj"], ())):
            try:
                _multiprocessing.sem_unlink("/" + nm[len("sem."):] if nm.startswith("sem.") else nm)
                n_un += 1
            except OSError as e:
                log("pre_unlink_error", name=nm, err=repr(e))
        log("pre_unlinked", obj=op["obj"], n=n_un)
    # a used multiprocessing-style Queue is kept alive by its own feeder thread (bound-method
    # argument) until close(): releasing it properly means closing it, as with the stdlib's
    if o is not None and hasattr(o, "close") and hasattr(o, "put"):
        try:
            o.close()
            if hasattr(o, "join_thread"):
                o.join_thread()
        except Exception as e:
            log("drop_close_error", err=repr(e))
    del o
    gc.collect()
    # A used Queue's feeder thread (daemon) holds the last references to some of its
    # semaphores until it has seen the close sentinel: bounded settle, then report.
    names = OBJ_NAMES.pop(op["obj"], set())
    deadline = time.monotonic() + op.get("grace", 5.0)
    waited = 0
    while names & set(shm_list() or []) and time.monotonic() < deadline:
        time.sleep(0.01)
        waited += 1
    return {"shm": shm_list(), "settle_polls": waited}


def op_use_obj(op, oid, ctx):
    """Send a primitive to a child LokyProcess which uses it once."""
    c = get_context(op.get("ctx", "loky"))
    o = OBJS[op["obj"]]
    p = c.Process(target=_use_in_child, args=(o, op.get("how", "touch")))
    p.start()
    p.join()
    return {"exitcode": p.exitcode, "shm": shm_list()}


def op_shmlist(op, oid, ctx):
    gc.collect()
    waited = 0
    live = {k: sorted(v) for k, v in OBJ_NAMES.items() if k in OBJS}
    if op.get("expect_empty"):
        # multiprocessing keeps finished-but-unjoined Process objects (and what they reference, e.g. a
        # crashed worker's exit lock) in its module-level children set until the next start() or
        # active_children() call: do what any user code does implicitly, then look.
        import multiprocessing as _mp

        _mp.active_children()
        gc.collect()
        deadline = time.monotonic() + op.get("grace", 5.0)
        while shm_list() and time.monotonic() < deadline:
            time.sleep(0.01)
            gc.collect()
            waited += 1
    return {"shm": shm_list(), "settle_polls": waited, "live_names": live}


def op_canary(op, oid, ctx):
    """Open descriptors that must never show up in a worker (C18)."""
    made = []
    for spec in op["fds"]:
        kind = spec["kind"]
        if kind == "pipe":
            r, w = os.pipe()
            fds = [r, w]
        elif kind == "socket":
            import socket

            a, b = socket.socketpair()
            fds = [a.detach(), b.detach()]
        else:
            fds = [os.open(os.path.join(CASEDIR, "canary.%d" % len(CANARIES)), os.O_RDWR | os.O_CREAT, 0o600)]
        res = []
        for fd in fds:
            tgt = spec.get("at")
            if tgt:
                nfd = os.dup2(fd, tgt + len(res), inheritable=False) if hasattr(os, "dup2") else fd
                os.close(fd)
                fd = tgt + len(res)
                res.append(fd)
            else:
                res.append(fd)
            os.set_inheritable(fd, bool(spec.get("inheritable")))
            st = os.fstat(fd)
            made.append({"fd": fd, "ino": [st.st_dev, st.st_ino], "inheritable": bool(spec.get("inheritable")), "kind": kind})
        CANARIES.extend(res)
    return {"canaries": made}


def op_keeplists(op, oid, ctx):
    ex = EXECS[op["ex"]]
    out = {}
    for pid, p in list(ex._processes.items()):
        try:
            out[str(pid)] = sorted(int(x) for x in p._popen._fds)
        except Exception as e:
            out[str(pid)] = repr(e)
    return {"keep": out}


def op_setenv(op, oid, ctx):
    for k, v in op["env"].items():
        if v is None:
            os.environ.pop(k, None)
        else:
            os.environ[k] = v
    return {"env": dict(os.environ)}


def op_tracker(op, oid, ctx):
    """Tracker-level operations for C12."""
    from loky.backend import resource_tracker as rt

    what = op["what"]
    if what == "ensure":
        rt.ensure_running()
    elif what == "register_file":
        path = os.path.join(RESDIR, op["name"])
        open(path, "w").close()
        rt.register(path, "file")
    elif what in ("kill", "signal") and rt._resource_tracker._pid is None:
        # no tracker at the moment (its launch was interrupted by the plan): nothing to kill or to signal
        return {"tracker_pid": None, "tracker_state": None, "skipped": True, "res": sorted(os.listdir(RESDIR)), "shm": shm_list()}
    elif what == "kill":
        pid = rt._resource_tracker._pid
        log("fault", kind="ext_kill", target=pid, sig=op.get("sig", "SIGKILL"), role="driver", victim="tracker")
        os.kill(pid, getattr(signal, op.get("sig", "SIGKILL")))
        if op.get("sig", "SIGKILL") == "SIGKILL":
            # wait until the kernel has torn it down (read-only: /proc state)
            for _ in range(500):
                st, _pp = proc_state(pid)
                if st in (None, "Z"):
                    break
                time.sleep(0.01)
    elif what == "signal":
        pid = rt._resource_tracker._pid
        log("fault", kind="ext_signal", target=pid, sig=op["sig"], role="driver", victim="tracker")
        os.kill(pid, getattr(signal, op["sig"]))
        time.sleep(op.get("settle", 0.1))
    elif what == "mk_sem":
        OBJS[op["obj"]] = get_context("loky").Semaphore(1)
    elif what == "bad_request":
        # requests the shared tracker must report and skip: they must neither stop it nor disturb what the tree registered
        k = op.get("kind", "unknown_type")
        if k == "unknown_type":
            rt.register("lv-unknown-%s" % oid, "shared_memory")
        elif k == "unregister_untracked":
            rt.unregister(os.path.join(RESDIR, "never-registered-%s" % oid), "file")
        elif k == "maybe_unlink_untracked":
            rt.maybe_unlink(os.path.join(RESDIR, "never-registered-%s" % oid), "file")
        elif k == "garbage":
            rt._resource_tracker._send("FROBNICATE", "x", "file")
        time.sleep(op.get("settle", 0.15))
    elif what == "spawn_probe":
        # the next tracked operation after a tracker death is a process spawn: the child must
        # report to the same (relaunched) tracker as the root, and what it registers must outlive it
        c = get_context(op.get("ctx", "loky"))
        out_path = os.path.join(CASEDIR, "spawn_probe.%s.json" % oid)
        res_path = os.path.join(RESDIR, op["name"])
        p = c.Process(target=lv_tasks.tracker_child, args=(out_path, res_path))
        p.start()
        pid_after_spawn = rt._resource_tracker._pid
        p.join()
        try:
            with open(out_path) as f:
                child = json.load(f)
        except Exception as e:
            child = {"error": repr(e)}
        st, _pp = proc_state(pid_after_spawn) if pid_after_spawn else (None, None)
        return {"tracker_pid": rt._resource_tracker._pid, "tracker_pid_after_spawn": pid_after_spawn, "tracker_state": st, "child": child,
                "child_exitcode": p.exitcode, "res": sorted(os.listdir(RESDIR)), "shm": shm_list()}
    pid = rt._resource_tracker._pid
    st, _pp = proc_state(pid) if pid else (None, None)
    return {"tracker_pid": pid, "tracker_state": st, "res": sorted(os.listdir(RESDIR)), "shm": shm_list()}


def _use_in_child(o, how):
    if how == "touch":
        if hasattr(o, "acquire"):
            o.acquire(False)
        elif hasattr(o, "is_set"):
            o.is_set()
    elif how == "crash":
        os._exit(7)


OPS = {
    "new": op_new,
    "get_reusable": op_get_reusable,
    "submit": op_submit,
    "map": op_map,
    "cancel": op_cancel,
    "wait": op_wait,
    "result": op_result,
    "shutdown": op_shutdown,
    "with": op_with,
    "del": op_del,
    "join_mgr": op_join_mgr,
    "kill": op_kill,
    "sleep": op_sleep,
    "barrier": op_barrier,
    "quiesce": op_quiesce,
    "census": op_census,
    "set_pickler": op_set_pickler,
    "mk": op_mk,
    "drop": op_drop,
    "use_obj": op_use_obj,
    "shmlist": op_shmlist,
    "canary": op_canary,
    "keeplists": op_keeplists,
    "setenv": op_setenv,
    "tracker": op_tracker,
    "ns": op_ns,
    "forget": op_forget,
    "repeat": op_repeat,
    "exitstatus": op_exitstatus,
}


def thread_main(i, ops):
    ctx = Ctx(i)
    try:
        run_ops(ops, ctx)
    finally:
        log("thread_end", tindex=i)


def main():
    threads = PROGRAM.get("threads", [])
    for name, n in PROGRAM.get("barriers", {}).items():
        BARRIERS[name] = threading.Barrier(n)
    ths = []
    for i, ops in enumerate(threads[1:], start=1):
        t = threading.Thread(target=thread_main, args=(i, ops), name="drv-%d" % i)
        t.start()
        ths.append(t)
    if threads:
        thread_main(0, threads[0])
    for t in ths:
        t.join()
    if PROGRAM.get("tail"):
        thread_main(98, PROGRAM["tail"])
    end = PROGRAM.get("end", "return")
    with FUT_LOCK:  # done-callbacks of other threads may register futures at this very moment (chain_cb)
        _futs = list(FUTS.items())
    log("program_end", end=end, undone=[n for n, f in _futs if not f.done()])
    if end == "return":
        return
    if end == "wait_all_return":
        run_op({"op": "wait", "futs": "all"}, Ctx(99))
        return
    if end == "sys_exit":
        sys.exit(PROGRAM.get("code", 0))
    if end == "raise":
        raise RuntimeError("driver ends with an uncaught exception")
    if end == "os_exit":
        os._exit(PROGRAM.get("code", 0))
    if end == "killself":
        log("fault", kind="killself", role="driver")
        os.kill(os.getpid(), signal.SIGKILL)
        time.sleep(10)


if __name__ == "__main__":
    main()
    log("main_returned")
