"""Task bodies, initializers and argument/result objects used by case programs.

Imported by the driver and (through the PYTHONPATH the case ships) by every
worker. Every body writes `task_start` as its first statement and `task_end`
as its last, from inside the body, so logged intervals/executions are real.
Every returned value embeds the unique task id of its submission.
"""
import os
import struct
import sys
import time

try:
    import _lv

    _log = _lv.log
except Exception:  # guard off: harmless no-op

    def _log(_k, **kw):
        pass


INIT_TOKEN = None
INIT_COUNT = 0


class LvError(Exception):
    pass


class LvFalsy(Exception):
    """An exception whose instances are falsy (defines __len__ returning 0)."""

    def __len__(self):
        return 0


EXC = {
    "ValueError": ValueError,
    "KeyError": KeyError,
    "RuntimeError": RuntimeError,
    "SystemExit": SystemExit,
    "KeyboardInterrupt": KeyboardInterrupt,
    "LvError": LvError,
    "LvFalsy": LvFalsy,
    "OSError": OSError,
    "ZeroDivisionError": ZeroDivisionError,
    "MemoryError": MemoryError,
    "RecursionError": RecursionError,
    "StopIteration": StopIteration,
    "TimeoutError": TimeoutError,
    "GeneratorExit": GeneratorExit,
    "EOFError": EOFError,
    "BrokenPipeError": BrokenPipeError,
}


# ---------------------------------------------------------------- argument / result objects
def _raise(ename, *args):
    raise EXC[ename](*args)


class BadPickle:
    """Raises (or exits) when pickled."""

    def __init__(self, ename="ZeroDivisionError"):
        self.ename = ename

    def __reduce__(self):
        if self.ename == "struct.error":
            raise struct.error("'i' format requires -2147483648 <= number <= 2147483647")
        if self.ename == "BrokenPipeError":
            import errno

            raise BrokenPipeError(errno.EPIPE, "Broken pipe (raised while pickling)")
        if self.ename == "IndexError":
            raise IndexError("index out of range (raised while pickling)")
        if self.ename == "ConnectionResetError":
            import errno

            raise ConnectionResetError(errno.ECONNRESET, "Connection reset by peer (raised while pickling)")
        if self.ename == "EBADF":
            os.fstat(-1)  # OSError(EBADF), like dup() of a stale descriptor in a reducer
        if self.ename == "TimeoutError":
            raise TimeoutError("timed out (raised while pickling)")
        raise EXC[self.ename]("bad pickle")


class BadUnpickle:
    """Pickles fine, raises when unpickled."""

    def __init__(self, ename="ZeroDivisionError"):
        self.ename = ename

    def __reduce__(self):
        return _raise, (self.ename, "bad unpickle")


def _ident(x):
    return x


class SlowPickle:
    """Pickling takes d seconds (keeps the feeder thread busy)."""

    def __init__(self, d):
        self.d = d

    def __reduce__(self):
        time.sleep(self.d)
        return _ident, (("slow", self.d),)


def make_args(spec):
    """Extra positional arguments built in the driver for arg-side behaviours."""
    a = spec.get("arg")
    if a is None:
        return ()
    if a[0] == "bad_pickle":
        if a[1] == "closed_socket":
            # loky's own socket reducer dups the descriptor: os.dup(-1) -> OSError(EBADF)
            import socket

            s = socket.socket()
            s.close()
            return (s,)
        return (BadPickle(a[1]),)
    if a[0] == "bad_unpickle":
        return (BadUnpickle(a[1]),)
    if a[0] == "slow_pickle":
        return (SlowPickle(a[1]),)
    if a[0] == "blob":
        return (b"x" * int(a[1]),)
    if a[0] == "too_large":
        # picklable, but above the size the (configured) transport accepts: fails in send_bytes, after pickling
        return (b"z" * int(a[1]),)
    if a[0] == "blob_then_bad":
        # a large picklable part first (the pickler flushes it), then an object that fails to pickle
        return (b"y" * int(a[1]), list(range(2000)), BadPickle(a[2]))
    if a[0] == "shared":
        # memo back-references: the same objects passed several times
        L = list(range(int(a[1])))
        t = ("tag", int(a[1]))
        return (L, L, t, t, "after")
    raise ValueError(a)


def digest(args):
    """A small JSON-able summary of positional arguments as received (identity structure included)."""
    out = []
    for i, x in enumerate(args):
        same = [j for j in range(i) if args[j] is x]
        if isinstance(x, (bytes, bytearray)):
            out.append(["bytes", len(x), x[:4].decode("latin1"), same])
        elif isinstance(x, (list, tuple)):
            out.append([type(x).__name__, len(x), repr(x[:3]), repr(x[-2:]), same])
        else:
            out.append([type(x).__name__, repr(x)[:60], same])
    return out


# ---------------------------------------------------------------- initializers
def _slow_exit(d):
    _log("slow_exit_begin", d=d)
    time.sleep(d)
    _log("slow_exit_end")


def init(token, counter_file=None, fail_on=None, leak0=False, fail_exc="RuntimeError", slow_exit=0):
    global INIT_TOKEN, INIT_COUNT
    if slow_exit:
        # the worker needs a while to leave once it got its sentinel (an atexit hook flushing state): a completed graceful
        # shutdown still means that it is gone
        import atexit

        atexit.register(_slow_exit, slow_exit)
    n = None
    if counter_file:
        fd = os.open(counter_file, os.O_WRONLY | os.O_CREAT | os.O_APPEND, 0o644)
        os.write(fd, b"x")
        n = os.fstat(fd).st_size
        os.close(fd)
    _log("init_run", token=token, n=n)
    if fail_on is not None and n is not None and n in fail_on:
        if fail_exc == "UserWarning":
            raise UserWarning("initializer aborted by a warning turned into an error on spawn %d" % n)
        if fail_exc == "SystemExit":
            raise SystemExit(3)
        raise RuntimeError("initializer fails on spawn %d" % n)
    if leak0:
        import loky.process_executor as pe

        pe._MAX_MEMORY_LEAK_SIZE = 0
        pe._MEMORY_LEAK_CHECK_DELAY = 0.0
    INIT_TOKEN = token
    INIT_COUNT += 1


# ---------------------------------------------------------------- task bodies
def _depth():
    try:
        import loky.process_executor as pe

        return pe._CURRENT_DEPTH
    except Exception:
        return None


def _observe(what):
    out = {}
    for w in what:
        if w == "env":
            out["env"] = dict(os.environ)
        elif w == "depth":
            out["depth"] = _depth()
        elif w == "pid":
            out["pid"] = os.getpid()
            out["ppid"] = os.getppid()
        elif w == "tracker":
            from loky.backend import resource_tracker as rt

            out["tracker_pid"] = getattr(rt._resource_tracker, "_pid", None)
            out["tracker_fd"] = getattr(rt._resource_tracker, "_fd", None)
        elif w == "pickler":
            from loky.backend.reduction import get_loky_pickler_name

            out["pickler"] = get_loky_pickler_name()
        elif w == "init":
            out["init"] = INIT_TOKEN
            out["init_count"] = INIT_COUNT
        elif w == "main":
            m = sys.modules.get("__main__")
            out["main_file"] = getattr(m, "__file__", None)
            out["main_marker"] = getattr(m, "LV_MAIN_MARKER", None)
            out["has_mp_main"] = "__mp_main__" in sys.modules
        elif w == "fds":
            fds = {}
            for n in os.listdir("/proc/self/fd"):
                try:
                    fds[n] = os.readlink("/proc/self/fd/" + n)
                except OSError:
                    pass
            out["fds"] = fds
        elif w == "faulthandler":
            import faulthandler

            out["faulthandler"] = faulthandler.is_enabled()
    return out


def _die(how, code):
    _log("die", how=how, code=code)
    if how == "sig":
        import signal

        os.kill(os.getpid(), code if isinstance(code, int) else getattr(signal, code))
        time.sleep(10)
    elif how == "exit":
        os._exit(code)
    elif how == "cexit":
        import ctypes

        ctypes.CDLL(None).exit(code)
    elif how == "sysexit":
        sys.exit(code)


class DieOnGC:
    def __init__(self, how, code):
        self.how, self.code = how, code

    def __del__(self):
        if os.environ.get("LOKY_VERIF_ROLE_HINT") != "driver":
            _die(self.how, self.code)


def _rendezvous(spec, tid):
    d = spec["dir"]
    n = spec["n"]
    grp = spec["grp"]
    me = os.path.join(d, "rv.%s.%s" % (grp, tid.replace("/", "_")))
    with open(me, "w") as f:
        f.write(str(os.getpid()))
    t0 = time.monotonic()
    ok = False
    peak = 0
    while time.monotonic() - t0 < spec.get("patience", 20.0):
        cur = [x for x in os.listdir(d) if x.startswith("rv.%s." % grp)]
        done = [x for x in os.listdir(d) if x.startswith("rvdone.%s" % grp)]
        peak = max(peak, len(cur))
        if len(cur) >= n or done:
            ok = True
            # tell late pollers that the rendezvous happened, before anybody leaves
            open(os.path.join(d, "rvdone.%s" % grp), "w").close()
            break
        time.sleep(0.002)
    # stay checked-in until everybody has seen it (bounded)
    time.sleep(spec.get("hold", 0.05))
    try:
        os.unlink(me)
    except OSError:
        pass
    return ["rv", tid, ok, peak]


def _nested(spec, tid):
    """Create an executor inside this worker and run sub-tasks on it."""
    out = {"depth": _depth(), "pid": os.getpid()}
    if spec.get("via_thread"):
        # the nested executor is created and used from a helper thread of this worker, not its main thread
        import threading

        box = {}
        sub = dict(spec, via_thread=False)

        def body():
            try:
                box["r"] = _nested(sub, tid)
            except BaseException as e:  # noqa
                box["e"] = e

        th = threading.Thread(target=body, name="lv-helper")
        th.start()
        th.join()
        if "e" in box:
            raise box["e"]
        box["r"][2]["via_thread"] = True
        return box["r"]
    if spec.get("default_method"):
        # the start method is selected implicitly through loky's process-wide default
        from loky.backend import context as lctx

        lctx.set_start_method(spec["default_method"], force=True)
        out["default_method"] = spec["default_method"]
    kw = dict(spec.get("kw", {}))
    if spec.get("init_nested") is not None:
        # the workers of THIS pool build a further executor in their initializer (used later by 'use_init_nested' tasks)
        kw["initializer"] = init_nested
        kw["initargs"] = (spec["init_nested"],)
    try:
        if spec.get("kind", "reusable") == "reusable":
            from loky import get_reusable_executor

            ex = get_reusable_executor(**kw)
        else:
            from loky import ProcessPoolExecutor

            ctx = kw.pop("context", None)
            if ctx is not None:
                from loky.backend import get_context

                kw["context"] = get_context(ctx)
            ex = ProcessPoolExecutor(**kw)
        out["construct"] = "ok"
    except BaseException as e:
        out["construct"] = type(e).__name__
        out["construct_msg"] = str(e)[:200]
        _log("nested_construct", tid=tid, res=out["construct"], depth=out["depth"])
        return ["nested", tid, out]
    finally:
        if spec.get("default_method"):
            # whatever the outcome: the process-wide default must not leak into later tasks of this (reused) worker
            from loky.backend import context as lctx

            lctx.set_start_method(None, force=True)
    _log("nested_construct", tid=tid, res="ok", depth=out["depth"])
    out["sub"] = _run_subs(ex, spec, tid)
    return ["nested", tid, out]


INIT_NESTED = None


def init_nested(spec):
    """Initializer of a nested pool's worker: builds one more executor and keeps it for the tasks of this worker.
    Records the depth seen *while the initializer runs* and the outcome of the construction."""
    global INIT_NESTED
    info = {"depth": _depth(), "pid": os.getpid(), "in_initializer": True}
    kw = dict(spec.get("kw", {}))
    ex = None
    try:
        if spec.get("kind", "plain") == "reusable":
            from loky import get_reusable_executor

            ex = get_reusable_executor(**kw)
        else:
            from loky import ProcessPoolExecutor

            ctx = kw.pop("context", None)
            if ctx is not None:
                from loky.backend import get_context

                kw["context"] = get_context(ctx)
            ex = ProcessPoolExecutor(**kw)
        info["construct"] = "ok"
    except BaseException as e:
        info["construct"] = type(e).__name__
        info["construct_msg"] = str(e)[:200]
    _log("nested_construct", tid="init", res=info["construct"], depth=info["depth"], in_initializer=True)
    INIT_NESTED = (info, ex)


def _use_init_nested(spec, tid):
    info, ex = INIT_NESTED if INIT_NESTED is not None else ({"depth": None, "construct": "initializer_did_not_run"}, None)
    info = dict(info, task_depth=_depth())
    if ex is not None:
        info["sub"] = _run_subs(ex, dict(spec, then="wait"), tid)
    return ["nested", tid, info]


def _run_subs(ex, spec, tid):
    futs = []
    for i, s in enumerate(spec.get("sub", [])):
        stid = "%s/%d" % (tid, i)
        try:
            futs.append((stid, ex.submit(run, s, stid, *make_args(s))))
        except BaseException as e:
            futs.append((stid, e))
    res = []
    if spec.get("then", "wait") == "wait":
        for stid, f in futs:
            if isinstance(f, BaseException):
                res.append([stid, "submit_exc", type(f).__name__])
                continue
            try:
                res.append([stid, "value", f.result()])
            except BaseException as e:
                res.append([stid, "exc", type(e).__name__, str(e)[:200]])
        if spec.get("shutdown", False):
            ex.shutdown(wait=True)
    else:
        # leave the nested pool running and block: used by forced-shutdown cases
        _log("nested_running", tid=tid, n=len(futs))
        time.sleep(spec.get("hang", 120))
    return res


class Stateful:
    """A callable whose behaviour depends on state the parent changes between two submissions of the SAME object
    (submitted through loky.wrap_non_picklable_objects): every submission must see the state of its own submission."""

    def __init__(self, k=0):
        self.k = k

    def effective(self, spec):
        return dict(spec, x=[spec.get("x"), self.k])

    def __call__(self, spec, tid, *extra):
        return run(self.effective(spec), tid, *extra)


def run(spec, tid, *extra):
    k = spec["k"]
    _log("task_start", tid=tid, kind=k, depth=_depth(), init=INIT_TOKEN, wpid=os.getpid())
    try:
        if k == "ok":
            r = ["ok", tid, spec.get("x")]
        elif k == "echo":
            r = ["echo", tid, digest(extra)]
        elif k == "sleep":
            time.sleep(spec["d"])
            r = ["slept", tid]
        elif k == "raise":
            raise EXC[spec["e"]](*spec.get("args", ()))
        elif k == "raise_unpicklable":
            # an exception INSTANCE that cannot be pickled (carries an OS-level handle), the way application errors often do
            err = EXC[spec["e"]](*spec.get("args", ()))
            import _thread

            err.handle = _thread.allocate_lock() if spec.get("attr", "lock") == "lock" else (lambda: tid)
            raise err
        elif k == "bad_result_pickle":
            r = ["brp", tid, BadPickle(spec.get("e", "ZeroDivisionError"))]
        elif k == "bad_result_unpickle":
            r = ["bru", tid, BadUnpickle(spec.get("e", "ZeroDivisionError"))]
        elif k == "die":
            if spec.get("d"):
                time.sleep(spec["d"])
            _die(spec["how"], spec["code"])
            r = ["survived", tid]
        elif k == "die_in_gc":
            r = ["ok", tid, None]
            _garbage = DieOnGC(spec["how"], spec["code"])  # noqa: F841 dies when the frame is torn down
        elif k == "spawn_loop":
            # short-lived children come and go for d seconds (a worker whose process tree keeps changing)
            import subprocess

            t_end = time.monotonic() + spec.get("d", 2.0)
            n = 0
            while time.monotonic() < t_end:
                subprocess.run(["true"])
                n += 1
            r = ["spawn_loop", tid, n > 0]
        elif k == "endless":
            time.sleep(spec.get("d", 120))
            r = ["endless_finished", tid]
        elif k == "rendezvous":
            r = _rendezvous(spec, tid)
        elif k == "nested":
            r = _nested(spec, tid)
        elif k == "use_init_nested":
            r = _use_init_nested(spec, tid)
        elif k == "spawn_subprocess":
            import subprocess

            p = subprocess.Popen(
                [sys.executable, "-c", "import time; time.sleep(%r)" % spec.get("d", 120)],
                stdin=subprocess.DEVNULL,
            )
            _log("subprocess_spawned", tid=tid, spid=p.pid)
            if spec.get("hang"):
                time.sleep(spec["hang"])
            r = ["sub", tid, p.pid]
        elif k == "churn_subprocess":
            # owns one long-lived helper and keeps starting/reaping short-lived ones (a task shelling out in a loop):
            # descendants vanish while a kill sweep walks the tree
            import subprocess

            keeper = subprocess.Popen(["sleep", "600"], stdin=subprocess.DEVNULL)
            _log("subprocess_spawned", tid=tid, spid=keeper.pid, keeper=True)
            t_end = time.monotonic() + spec.get("hang", 120)
            while time.monotonic() < t_end:
                procs = [subprocess.Popen(["sleep", "0.0%d" % (1 + i % 3)], stdin=subprocess.DEVNULL) for i in range(spec.get("n", 12))]
                for p in procs:
                    p.wait()
            r = ["churn", tid, keeper.pid]
        elif k == "probe":
            r = ["probe", tid, _observe(spec["what"])]
        else:
            raise ValueError("unknown task kind %r" % k)
    except BaseException as e:
        _log("task_end", tid=tid, exc=type(e).__name__)
        raise
    _log("task_end", tid=tid)
    return r


def expected(spec, tid):
    """Reference outcome of run(spec, tid) computed without running it.
    Returns ('value', v) | ('exc', typename, args) | ('special', what)."""
    a = spec.get("arg")
    if a is not None:
        if a[0] == "bad_pickle":
            return ("unsendable", "RuntimeError" if a[1] == "struct.error" else "PicklingError")
        if a[0] == "blob_then_bad":
            return ("unsendable", "RuntimeError" if a[2] == "struct.error" else "PicklingError")
        if a[0] == "bad_unpickle":
            return ("special", "breaks_pool")
        if a[0] == "too_large":
            return ("unsendable", "RuntimeError")
    k = spec["k"]
    if k == "ok":
        return ("value", ["ok", tid, spec.get("x")])
    if k == "echo":
        return ("value", ["echo", tid, digest(make_args(spec))])
    if k == "sleep":
        return ("value", ["slept", tid])
    if k == "raise":
        return ("exc", spec["e"], list(spec.get("args", ())))
    if k == "raise_unpicklable":
        return ("exc_any",)
    if k == "bad_result_pickle":
        return ("exc", spec.get("e", "ZeroDivisionError"), ["bad pickle"])
    if k == "bad_result_unpickle":
        return ("special", "breaks_pool")
    if k in ("die", "die_in_gc"):
        return ("special", "breaks_pool")
    if k == "endless":
        return ("special", "endless")
    if k == "rendezvous":
        return ("special", "rendezvous")
    if k in ("spawn_subprocess", "churn_subprocess"):
        return ("special", "subprocess")
    if k == "spawn_loop":
        return ("value", ["spawn_loop", tid, True])
    return ("special", k)


# ---------------------------------------------------------------- map functions
def mapfn(tag, *args):
    _log("task_start", tid="m:%s:%s" % (tag, ",".join(map(str, args))), kind="map", wpid=os.getpid())
    r = ["m", tag, list(args)]
    _log("task_end", tid="m:%s:%s" % (tag, ",".join(map(str, args))))
    return r


def mapfn_ref(tag, *args):
    return ["m", tag, list(args)]


def die_target(how, code, hold):
    """Target of a bare LokyProcess: stay alive `hold` seconds, then end in the given way."""
    import signal

    time.sleep(hold)
    _log("die", how=how, code=code)
    if how == "os_exit":
        os._exit(code)
    elif how == "cexit":
        import ctypes

        ctypes.CDLL(None).exit(code)
    elif how == "sys_exit":
        sys.exit(code)
    elif how == "return":
        return
    elif how == "signal":
        sig = getattr(signal, code)
        try:
            signal.signal(sig, signal.SIG_DFL)
        except (OSError, ValueError):
            pass
        import faulthandler

        faulthandler.disable()
        os.kill(os.getpid(), sig)
        time.sleep(10)
    elif how == "raise":
        raise RuntimeError("target raises")


def tracker_child(out_path, res_path):
    """Bare child: report the tracker it talks to, register a file, leave."""
    import json

    from loky.backend import resource_tracker as rt

    open(res_path, "w").close()
    rt.register(res_path, "file")
    with open(out_path, "w") as f:
        json.dump({"pid": os.getpid(), "tracker_pid": rt._resource_tracker._pid, "tracker_fd": rt._resource_tracker._fd}, f)


def mapfn_stop(tag, stop_mod, *args):
    """Like mapfn but raises StopIteration for some arguments."""
    _log("task_start", tid="m:%s:%s" % (tag, ",".join(map(str, args))), kind="map", wpid=os.getpid())
    if args and isinstance(args[0], int) and args[0] % stop_mod == stop_mod - 1:
        _log("task_end", tid="m:%s:%s" % (tag, ",".join(map(str, args))), exc="StopIteration")
        raise StopIteration(args[0])
    r = ["m", tag, list(args)]
    _log("task_end", tid="m:%s:%s" % (tag, ",".join(map(str, args))))
    return r


def mapfn_stop_ref(tag, stop_mod, *args):
    if args and isinstance(args[0], int) and args[0] % stop_mod == stop_mod - 1:
        raise StopIteration(args[0])
    return ["m", tag, list(args)]
