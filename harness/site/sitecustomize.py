"""In-process monitor + injector, loaded by every interpreter of a case.

Active only when LOKY_VERIF=1 and LOKY_VERIF_DIR are set (the guard). With
the guard off this file is not even on PYTHONPATH.

It never changes values, arguments or control flow of loky: it records events,
and at statement boundaries of loky's own code it may sleep, kill the current
process or deliver a signal, as the case's plan says.
"""
import os
import sys

if os.environ.get("LOKY_VERIF") == "1" and os.environ.get("LOKY_VERIF_DIR"):
    try:
        import _lv_monitor  # noqa: F401  (same directory)
    except Exception:  # never break the monitored program
        import traceback

        try:
            with open(os.path.join(os.environ["LOKY_VERIF_DIR"], "monitor_error.%d" % os.getpid()), "w") as _f:
                traceback.print_exc(file=_f)
        except Exception:
            pass
