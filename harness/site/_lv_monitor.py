"""The monitor/injector proper (see sitecustomize.py for the guard).

Event log: <DIR>/events.<pid>.jsonl, O_APPEND, one os.write per record,
timestamps CLOCK_MONOTONIC (system-wide, comparable across processes).
"""
import atexit
import faulthandler
import json
import os
import signal
import sys
import threading
import time
import zlib

DIR = os.environ["LOKY_VERIF_DIR"]
REPO = os.environ.get("LOKY_VERIF_REPO", "/repo")
LOKY_DIR = os.path.join(os.path.realpath(REPO), "loky") + os.sep
PID = os.getpid()
_mono = time.monotonic
_write = os.write
_dumps = json.dumps

ARGV = list(getattr(sys, "orig_argv", None) or sys.argv)


def _detect_role():
    a = " ".join(ARGV)
    name = None
    if "popen_loky_posix" in a:
        role = "worker"
        if "--process-name" in ARGV:
            try:
                name = ARGV[ARGV.index("--process-name") + 1]
            except Exception:
                name = None
    elif "loky.backend.resource_tracker import main" in a:
        role = "tracker"
    elif "multiprocessing.resource_tracker import main" in a:
        role = "mptracker"
    elif os.environ.get("LOKY_VERIF_DRIVER") and (any(x.endswith(os.environ["LOKY_VERIF_DRIVER"]) for x in ARGV) or ("-m" in ARGV[:4] and os.environ["LOKY_VERIF_DRIVER"][:-3] in ARGV[:5])):
        role = "driver"
    else:
        role = "other"
    return role, name


ROLE, PROC_NAME = _detect_role()

_fd = os.open(os.path.join(DIR, "events.%d.jsonl" % PID), os.O_WRONLY | os.O_CREAT | os.O_APPEND, 0o644)


def _thname():
    try:
        return threading.current_thread().name
    except Exception:
        return "?"


def log(_k, **kw):
    kw["k"] = _k
    kw["t"] = _mono()
    kw["pid"] = PID
    if "th" not in kw:
        kw["th"] = _thname()
    try:
        _write(_fd, (_dumps(kw, default=repr) + "\n").encode())
    except Exception:
        pass


def _fdsnap():
    out = {}
    try:
        for n in os.listdir("/proc/self/fd"):
            try:
                tgt = os.readlink("/proc/self/fd/" + n)
            except OSError:
                continue
            ino = None
            try:
                st = os.stat(int(n))
                ino = [st.st_dev, st.st_ino]
            except OSError:
                pass
            out[n] = [tgt, ino]
    except OSError:
        pass
    return out


# --------------------------------------------------------------------------
# plan
# --------------------------------------------------------------------------
try:
    with open(os.path.join(DIR, "plan.json")) as _f:
        PLAN = json.load(_f)
except Exception:
    PLAN = {}
SEED = int(PLAN.get("seed", 0))
PROFILE = bool(PLAN.get("profile"))
LOG_ENV = PLAN.get("log_env", True)


def _thread_role(name):
    if name.startswith("ExecutorManagerThread"):
        return "mgr"
    if name.startswith("QueueFeederThread"):
        return "feeder"
    return "user"


def _rule_applies_to_process(r):
    rr = r.get("role", "*")
    if rr != "*" and rr != ROLE:
        return False
    rp = r.get("proc", "*")
    if rp != "*" and rp != PROC_NAME:
        return False
    return True


RULES = {}  # (file, qual, rel) -> [rule]
ANY = []  # rules without a point (jitter)
for _i, _r in enumerate(PLAN.get("rules", [])):
    _r.setdefault("id", _i)
    _r["_n"] = 0
    if not _rule_applies_to_process(_r):
        continue
    if _r.get("file") is None:
        ANY.append(_r)
    else:
        RULES.setdefault((_r["file"], _r["qual"], int(_r["rel"])), []).append(_r)

_tls = threading.local()


def _rng():
    r = getattr(_tls, "rng", None)
    if r is None:
        import random

        r = random.Random(zlib.crc32(("%d|%s|%s|%s" % (SEED, ROLE, PROC_NAME, _thname())).encode()))
        _tls.rng = r
    return r


# --------------------------------------------------------------------------
# probes: read-only observations of the monitored frame
# --------------------------------------------------------------------------
def _probe_nproc(frame):
    s = frame.f_locals.get("self")
    if s is None:
        return None
    procs = getattr(s, "_processes", None)
    ex = s
    if procs is None:
        procs = getattr(s, "processes", None)
        ref = getattr(s, "executor_reference", None)
        ex = ref() if ref is not None else None
    if procs is None:
        return None
    return {
        "n": len(procs),
        "mw": getattr(ex, "_max_workers", None),
        "ex": id(ex) if ex is not None else None,
    }


PROBES = {"nproc": _probe_nproc}


# --------------------------------------------------------------------------
# actions
# --------------------------------------------------------------------------
_ann = 0  # 0: not announced, 1: announcing (put(pid) in progress), 2: announced


def _do_action(rule, key, frame_getter):
    act = rule["action"]
    a0 = act[0]
    if a0 == "sleep":
        log("fault", kind="sleep", rule=rule["id"], pt=key, d=act[1], ann=_ann, role=ROLE, proc=PROC_NAME)
        time.sleep(act[1])
        log("fault_end", rule=rule["id"])
    elif a0 == "kill":
        log("fault", kind="kill", sig=act[1], rule=rule["id"], pt=key, ann=_ann, role=ROLE, proc=PROC_NAME)
        os.kill(PID, act[1] if isinstance(act[1], int) else getattr(signal, act[1]))
        time.sleep(5)  # a catchable signal may take an instant to be delivered
    elif a0 == "exit":
        log("fault", kind="exit", code=act[1], rule=rule["id"], pt=key, ann=_ann, role=ROLE, proc=PROC_NAME)
        os._exit(act[1])
    elif a0 == "cexit":
        log("fault", kind="cexit", code=act[1], rule=rule["id"], pt=key, ann=_ann, role=ROLE, proc=PROC_NAME)
        import ctypes

        ctypes.CDLL(None).exit(act[1])
    elif a0 == "signal":
        log("fault", kind="signal", sig=act[1], rule=rule["id"], pt=key, role=ROLE, proc=PROC_NAME)
        os.kill(PID, getattr(signal, act[1]))
    elif a0 == "probe":
        fn = PROBES.get(act[1])
        if fn is not None:
            try:
                v = fn(frame_getter())
            except Exception as e:  # the probe must never disturb the program
                v = {"err": repr(e)}
            if v is not None:
                log("inv", name=act[1], pt=key, v=v)
    elif a0 == "mark":
        log("mark", name=act[1], pt=key)


# --------------------------------------------------------------------------
# sys.monitoring LINE callback
# --------------------------------------------------------------------------
_codes = {}
_wmark_n = {}
_counts = {}  # (key, thread role) -> n
_MPQ = os.sep + os.path.join("multiprocessing", "queues.py")
_MPP = os.sep + os.path.join("multiprocessing", "process.py")
_MPU = os.sep + os.path.join("multiprocessing", "util.py")
_MPU_FUNCS = ("_exit_function", "_run_finalizers", "Finalize.__call__")

_WMARKS = (
    ("result_queue.put(pid)", "announce"),
    ("Shutting down worker after timeout", "timeout_branch"),
    ("Shutting down worker on sentinel", "sentinel_branch"),
    ("Memory leak detected", "memleak_branch"),
)


def _classify(code):
    fn = code.co_filename
    info = False
    try:
        rfn = os.path.realpath(fn) if fn.startswith(os.sep) else fn
        short = None
        if rfn.startswith(LOKY_DIR):
            short = rfn[len(LOKY_DIR):]
            is_fn = bool(code.co_flags & 0x2)  # CO_NEWLOCALS: function-like
            if not is_fn:
                # module/class bodies: only the worker's start-up block
                if not (short.endswith("popen_loky_posix.py") and code.co_name == "<module>" and ROLE == "worker"):
                    short = None
        elif rfn.endswith(_MPQ):
            short = "mp/queues.py" if code.co_flags & 0x2 else None
        elif rfn.endswith(_MPP):
            short = "mp/process.py" if code.co_qualname in ("BaseProcess._bootstrap", "BaseProcess.sentinel", "BaseProcess.is_alive", "BaseProcess.join", "BaseProcess.exitcode", "BaseProcess.start") else None
        elif rfn.endswith(_MPU):
            short = "mp/util.py" if code.co_qualname in _MPU_FUNCS else None
        if short is not None:
            marks = None
            if code.co_name == "_process_worker" and short == "process_executor.py":
                import linecache

                marks = {}
                try:
                    n = len(linecache.getlines(fn))
                    last = max(l for _, _, l in code.co_lines() if l is not None)
                    for ln in range(code.co_firstlineno, min(n, last) + 1):
                        txt = linecache.getline(fn, ln)
                        for pat, mk in _WMARKS:
                            if pat in txt:
                                marks[ln - code.co_firstlineno] = mk
                except Exception:
                    marks = {}
            info = (short, code.co_qualname, code.co_firstlineno, marks)
    except Exception:
        info = False
    _codes[code] = info
    return info


def _on_line(code, line):
    global _ann
    info = _codes.get(code)
    if info is None:
        info = _classify(code)
    if info is False:
        return DISABLE
    rel = line - info[2]
    key = (info[0], info[1], rel)
    marks = info[3]
    if marks is not None:
        # worker loop: exit-path classification and announcement state
        if _ann == 1:
            _ann = 2
            log("wmark", name="announced")
        mk = marks.get(rel)
        if mk is not None:
            if mk == "announce":
                _ann = 1
            # a worker that can never take the management lock walks through its time-out branch for ever: such a loop
            # must not count as progress of the tree (stall watchdog), so a mark is logged at most 30 times per process
            n = _wmark_n.get(mk, 0) + 1
            _wmark_n[mk] = n
            if n <= 30:
                log("wmark", name=mk, n=n)
    if PROFILE:
        ck = (key, _thread_role(_thname()))
        c = _counts.get(ck, 0)
        _counts[ck] = c + 1
        if c == 0:
            log("pt", pt=key, thr=ck[1], role=ROLE, proc=PROC_NAME)
    rs = RULES.get(key)
    if rs is not None:
        thr = None
        for r in rs:
            rt = r.get("thread", "*")
            if rt != "*":
                if thr is None:
                    thr = _thread_role(_thname())
                if rt != thr:
                    continue
            r["_n"] += 1
            h = r.get("hit", 1)
            if h == 0 or r["_n"] == h:
                _do_action(r, key, lambda: sys._getframe(3))
    if ANY:
        for r in ANY:
            act = r["action"]
            if act[0] == "jitter":
                rt = r.get("thread", "*")
                if rt != "*" and rt != _thread_role(_thname()):
                    continue
                g = _rng()
                if g.random() < act[1]:
                    r["_n"] += 1
                    time.sleep(g.random() * act[2])
    return None


# --------------------------------------------------------------------------
# hooks for anomalies
# --------------------------------------------------------------------------
def _fmt_tb(tp, val, tb):
    import traceback

    try:
        return "".join(traceback.format_exception(tp, val, tb))[-3000:]
    except Exception:
        return repr(val)


_orig_thook = threading.excepthook


def _thook(args):
    try:
        log(
            "thread_exception",
            thread=getattr(args.thread, "name", None),
            etype=getattr(args.exc_type, "__name__", str(args.exc_type)),
            tb=_fmt_tb(args.exc_type, args.exc_value, args.exc_traceback),
        )
    except Exception:
        pass
    return _orig_thook(args)


threading.excepthook = _thook

_orig_unraisable = sys.unraisablehook


def _uhook(u):
    try:
        log(
            "unraisable",
            etype=getattr(u.exc_type, "__name__", str(u.exc_type)),
            msg=str(u.err_msg),
            obj=repr(u.object)[:200],
            tb=_fmt_tb(u.exc_type, u.exc_value, u.exc_traceback),
        )
    except Exception:
        pass
    return _orig_unraisable(u)


sys.unraisablehook = _uhook

_orig_excepthook = sys.excepthook


def _ehook(tp, val, tb):
    try:
        log("uncaught", etype=getattr(tp, "__name__", str(tp)), tb=_fmt_tb(tp, val, tb))
    except Exception:
        pass
    return _orig_excepthook(tp, val, tb)


sys.excepthook = _ehook

import warnings as _warnings  # noqa: E402

_orig_showwarning = _warnings.showwarning


def _showwarning(message, category, filename, lineno, file=None, line=None):
    try:
        log("warning", cat=getattr(category, "__name__", str(category)), msg=str(message)[:500], file=filename, line=lineno)
    except Exception:
        pass
    return _orig_showwarning(message, category, filename, lineno, file, line)


_warnings.showwarning = _showwarning


# --------------------------------------------------------------------------
# start-up / exit records
# --------------------------------------------------------------------------
def _proc_start():
    rec = dict(role=ROLE, proc=PROC_NAME, ppid=os.getppid(), argv=ARGV[:12], fds=_fdsnap())
    if LOG_ENV and ROLE in ("worker", "driver"):
        rec["env"] = dict(os.environ)
    log("proc_start", **rec)


def _flush_counts():
    if PROFILE and _counts:
        agg = {}
        for (key, thr), n in list(_counts.items()):
            agg.setdefault("%s|%s|%d|%s" % (key[0], key[1], key[2], thr), n)
        log("ptcount", role=ROLE, proc=PROC_NAME, counts=agg)


def _atexit():
    _flush_counts()
    fired = {str(r["id"]): r["_n"] for rs in RULES.values() for r in rs}
    fired.update({str(r["id"]): r["_n"] for r in ANY})
    log("proc_atexit", role=ROLE, proc=PROC_NAME, rule_hits=fired)


atexit.register(_atexit)


def _after_fork_child():
    global PID, _fd, ROLE, PROC_NAME
    PID = os.getpid()
    ROLE, PROC_NAME = "forked", None
    try:
        _fd = os.open(os.path.join(DIR, "events.%d.jsonl" % PID), os.O_WRONLY | os.O_CREAT | os.O_APPEND, 0o644)
    except OSError:
        pass
    log("proc_start", role=ROLE, proc=None, ppid=os.getppid(), argv=ARGV[:6], fds={})


os.register_at_fork(after_in_child=_after_fork_child)

try:
    _stackf = open(os.path.join(DIR, "stacks.%d.txt" % PID), "w")
    faulthandler.register(signal.SIGUSR2, file=_stackf, all_threads=True, chain=False)
except Exception:
    _stackf = None

_proc_start()

DISABLE = None
if hasattr(sys, "monitoring") and (PROFILE or RULES or ANY or ROLE == "worker"):
    mon = sys.monitoring
    TOOL = 3
    try:
        mon.use_tool_id(TOOL, "lokyverif")
        DISABLE = mon.DISABLE
        mon.register_callback(TOOL, mon.events.LINE, _on_line)
        mon.set_events(TOOL, mon.events.LINE)
    except Exception as _e:
        log("monitor_error", err=repr(_e))

sys.modules["_lv"] = sys.modules[__name__]
