"""Parallel execution of cases, each in its own pid+mount namespace."""
import concurrent.futures as cf
import json
import os
import shutil
import signal
import subprocess
import threading
import time

from . import common

_UNSHARE = ["unshare", "--mount", "--pid", "--fork", "--kill-child", "--mount-proc"]
_iso_ok = None


def isolation_available():
    global _iso_ok
    if _iso_ok is None:
        try:
            r = subprocess.run(_UNSHARE + ["true"], capture_output=True, timeout=20)
            _iso_ok = r.returncode == 0
        except Exception:
            _iso_ok = False
    return _iso_ok


class History:
    """Merged, time-ordered event history of one case + final.json."""

    def __init__(self, case, casedir):
        self.case = case
        self.dir = casedir
        self.events = []
        self.final = None
        self.infra_error = None
        self._by = None
        self.load()

    def load(self):
        evs = []
        try:
            names = os.listdir(self.dir)
        except OSError:
            names = []
        for n in names:
            if n.startswith("events.") and n.endswith(".jsonl"):
                try:
                    with open(os.path.join(self.dir, n), "rb") as f:
                        for line in f:
                            try:
                                evs.append(json.loads(line))
                            except ValueError:
                                pass  # a process killed mid-write
                except OSError:
                    pass
        evs.sort(key=lambda e: e.get("t", 0.0))
        self.events = evs
        try:
            with open(os.path.join(self.dir, "final.json")) as f:
                self.final = json.load(f)
        except (OSError, ValueError):
            self.final = None
        self.monitor_errors = [n for n in names if n.startswith("monitor_error")]

    def by(self, kind):
        if self._by is None:
            d = {}
            for e in self.events:
                d.setdefault(e.get("k"), []).append(e)
            self._by = d
        return self._by.get(kind, [])

    def read(self, name, limit=20000):
        try:
            with open(os.path.join(self.dir, name), errors="replace") as f:
                return f.read()[-limit:]
        except OSError:
            return ""

    def stacks(self):
        out = {}
        try:
            for n in os.listdir(self.dir):
                if n.startswith("stacks.") and os.path.getsize(os.path.join(self.dir, n)) > 0:
                    out[n] = self.read(n, 30000)
        except OSError:
            pass
        return out

    @property
    def outcome(self):
        if self.final is None:
            return "infra"
        return self.final.get("outcome")


def run_case(case, casedir, keep=False):
    """Run one case to completion; returns History."""
    os.makedirs(casedir, exist_ok=True)
    case = dict(case)
    case.setdefault("verif", common.VERIF)
    case.setdefault("repo", common.REPO)
    case.setdefault("python", common.PY)
    with open(os.path.join(casedir, "case.json"), "w") as f:
        json.dump({k: v for k, v in case.items() if not k.startswith("_")}, f)
    to = case.get("timeouts", {})
    outer = float(to.get("hard_s", 120)) + float(to.get("tree_wait_s", 8)) + 30
    cmd = [common.PY, os.path.join(common.VERIF, "harness", "caseinit.py"), casedir]
    if isolation_available():
        cmd = _UNSHARE + cmd
    env = dict(os.environ)
    for k in list(env):
        if k.startswith("LOKY_"):
            env.pop(k)
    t0 = time.monotonic()
    p = subprocess.Popen(cmd, stdin=subprocess.DEVNULL, stdout=subprocess.PIPE, stderr=subprocess.STDOUT, env=env,
                         start_new_session=True)
    try:
        out, _ = p.communicate(timeout=outer)
    except subprocess.TimeoutExpired:
        try:
            os.killpg(p.pid, signal.SIGKILL)
        except OSError:
            pass
        out, _ = p.communicate()
    h = History(case, casedir)
    h.wall = time.monotonic() - t0
    if h.final is None:
        h.infra_error = (out or b"").decode(errors="replace")[-2000:]
    return h


def run_cases(cases, analyse, jobs=None, budget_s=None, scratch=None, progress=None, strip=()):
    """Run cases in parallel. analyse(case, history) is called in the calling
    thread's pool worker; it must copy what it wants to keep (the case
    directory is removed right after, unless it returns 'keep')."""
    jobs = jobs or max(2, common.NCPU)
    if os.environ.get("VERIF_JOBS"):
        jobs = max(1, min(jobs, int(os.environ["VERIF_JOBS"])))
    scratch = scratch or common.scratch_root()
    t0 = time.monotonic()
    lock = threading.Lock()
    stats = {"run": 0, "skipped_budget": 0}

    def one(i, case):
        if budget_s is not None and time.monotonic() - t0 > budget_s:
            with lock:
                stats["skipped_budget"] += 1
            return
        d = os.path.join(scratch, "c%06d" % i)
        try:
            h = run_case(case, d)
            with lock:
                stats["run"] += 1
                analyse(case, h)
        finally:
            shutil.rmtree(d, ignore_errors=True)
        if progress:
            progress(stats["run"])

    try:
        with cf.ThreadPoolExecutor(max_workers=jobs) as ex:
            futs = [ex.submit(one, i, c) for i, c in enumerate(cases)]
            for f in futs:
                f.result()
    finally:
        shutil.rmtree(scratch, ignore_errors=True)
    stats["wall_s"] = time.monotonic() - t0
    return stats
