#!/bin/sh
# usage: harness/seed_confirm.sh <seed out dir e.g. /tmp/seed/C05.out/a> <label>: demo passes on original, fails with the patch; full test suite with the patch
S=$1; L=$2
D=/tmp/sc-$L
rm -rf $D
git -C /repo worktree add -q --detach $D HEAD || exit 3
DEMO=$(ls $S/demo.py $S/test_demo.py 2>/dev/null | head -1)
run_demo() { if echo $DEMO | grep -q test_demo; then (cd $S && PYTHONPATH=$1 timeout 300 /venv/bin/python -m pytest -q -p no:cacheprovider $DEMO >/dev/null 2>&1); else (cd $S && PYTHONPATH=$1 timeout 300 /venv/bin/python $DEMO >/dev/null 2>&1); fi; echo $?; }
echo "[$L] demo on original: $(run_demo $D) $(run_demo $D)"
git -C $D apply $S/patch.diff || { echo "[$L] patch does not apply"; git -C /repo worktree remove --force $D; exit 3; }
echo "[$L] demo with patch:  $(run_demo $D) $(run_demo $D)"
(cd $D && /venv/bin/python -m pytest -q -p no:cacheprovider --timeout=900 --continue-on-collection-errors -x --deselect tests/test_loky_module.py::test_cpu_count_cgroup_limit --deselect tests/test_reusable_executor.py::TestTerminateExecutor::test_sigkill_shutdown_leaks_workers > /tmp/sc-$L.tests.log 2>&1; echo "[$L] test suite with patch: exit $? $(grep -E 'passed|failed' /tmp/sc-$L.tests.log | tail -1)")
git -C /repo worktree remove --force $D
