#!/bin/sh
# usage: harness/revert_check.sh <commit> <Cxx> [seed]   -- run a check against a scratch copy of /repo with one fix commit reverted
set -e
C=$1; P=$2; S=${3:-0}
D=/tmp/rv-$C
rm -rf $D
git -C /repo worktree add -q --detach $D HEAD
git -C $D revert --no-commit $C >/dev/null 2>&1 || { git -C /repo show $C | git -C $D apply -R; }
cd /verif
VERIF_OUT=/tmp/rv-out-$C VERIF_REPO=$D VERIF_SEED=$S VERIF_TMP=/tmp ./check $P --tier quick > /tmp/rv-$C-$P.log 2>&1 && rc=0 || rc=$?
echo "revert $C, check $P seed $S: exit $rc; $(grep -c '^VIOLATION' /tmp/rv-$C-$P.log) VIOLATION line(s)"
VERIF_OUT=/tmp/rv-out-$C /venv/bin/python -m harness.triage $P 2>/dev/null | cut -c1-260 | head -6
rm -rf /tmp/rv-out-$C
git -C /repo worktree remove --force $D
