"""Regenerates /verif/MANIFEST.json from the table below (python -m harness.mkmanifest)."""
import json
import os

from . import common

TREE_NOTE = (
    "Trusted base: CPython 3.12 sys.monitoring delivering LINE events at statement boundaries in every interpreter of the tree; Linux pid+mount "
    "namespaces (unshare) for isolation and reaping; CLOCK_MONOTONIC shared by all processes. Holds only on the executions produced; crash/delay points "
    "are statement boundaries of loky's code plus external kills; 'finite time' is replaced by 40 s of global silence."
)

def _tree(level, technique, text, ref, note=None):
    return {"level": level, "technique": technique, "text": text, "design_ref": ref, "note": note or TREE_NOTE, "engine": "process-tree"}


CHECKS = {
    "C01": _tree(
        "exploration",
        "runtime monitoring of real process trees: client-boundary history + stall watchdog with stack witnesses, under systematic delay/crash injection at statement boundaries (sys.monitoring)",
        "Hundreds (quick) to thousands (thorough) of distinct executions of generated programs (all task outcomes, cancel/resize/shutdown/del/exit) with one placed delay in a "
        "driver thread, one placed death in a worker, or jitter; the oracle demands every handed-out future terminal, every API call returned and the interpreter exited before "
        "40 s of global silence. Liveness over all schedules cannot be decided by a finite run; placed perturbation at every discovered statement of the anchored functions is the "
        "strongest runtime evidence available.",
        "DESIGN.md section 3, C01",
    ),
    "C02": _tree(
        "fault_enumeration",
        "fault injection (worker killed at enumerated statement boundaries of its life, by 6 causes, single/double, plus manager delays) + offline oracle over the recorded history",
        "Every statement boundary executed by a worker in the profiled program (thorough: all of them x first/last hit; quick: stratified sample over all functions) is used as a "
        "death point; the oracle checks for every future: terminal, no fabricated value, BrokenProcessPool/TerminatedWorkerError (concurrent.futures class) naming the exit status, "
        "later submits raise it, flag set, workers reaped.",
        "DESIGN.md section 3, C02",
    ),
    "C03": _tree(
        "exploration",
        "history-based oracle with unique task ids (value vs reference, execution count from in-body records, map vs builtin map) under delays/jitter; differential run of the chunk helpers",
        "Unique ids make every future identify the submission that produced its value; executions are counted from records written inside task bodies; map results are compared "
        "with list(map(...)) for generated chunk sizes and unequal lengths; quiescent bookkeeping invariants are read after each drained batch.",
        "DESIGN.md section 3, C03",
    ),
    "C04": _tree(
        "exploration",
        "history-based oracle with an expected-outcome table per failure kind, quiescent invariants (queue slots, running ids), under delays in the feeder error path",
        "Faulty tasks of every kind at generated positions among good ones (incl. more unsendable tasks than queue slots); every future is compared with its reference outcome "
        "(type, args, remote traceback as __cause__), the pool must stay unbroken, slots must be returned, a fresh submit must succeed.",
        "DESIGN.md section 3, C04",
    ),
    "C05": _tree(
        "exploration",
        "history-based oracle at shutdown completion (results, exit codes, flags, threads, later submit) with delays placed in the shutdown machinery and the worker exit handshake",
        "Shutdown requested in six ways at four program positions, with idle time-outs and slow pickling; one delay at a statement of shutdown/_python_exit/shutdown_workers/"
        "join_executor_internals or of the worker's handshake per case.",
        "DESIGN.md section 3, C05",
    ),
    "C06": _tree(
        "exploration",
        "history + /proc observation of the whole process tree (namespace-wide) after shutdown(kill_workers=True), endless tasks as logical promptness witness",
        "Pool states reached by generated pauses, nested executors to depth 2 and subprocess grandchildren, psutil and pgrep paths; oracle: the call returned with no endless task "
        "completed, every unfinished future has ShutdownExecutorError (cancelled stay cancelled, finished keep values), workers reaped and descendants dead.",
        "DESIGN.md section 3, C06",
    ),
    "C07": _tree(
        "exploration",
        "history-based oracle (no broken flag, exactly-once, exit path of each worker classified from its own line events) with delays of 3x the idle timeout placed at every racing statement",
        "Time-outs down to 1 ms, all workers timing out at once, memory-leak exits, resizes and shutdown in the same history; delays placed in submit/spawn/dispatch/announcement "
        "processing/respawn/_resize and in the worker between Empty, lock probe, announcement and exit-lock wait.",
        "DESIGN.md section 3, C07",
    ),
    "C08": _tree(
        "exploration",
        "interval-overlap oracle over in-body records + invariant probes of len(_processes) at hooked statements (read-only, under the code's own lock) + rendezvous tasks for delivery",
        "Upper bound from logged execution intervals and from probes evaluated at every statement of the spawn/respawn/resize functions; delivery decided by rendezvous tasks that "
        "only return when max_workers of them are checked in simultaneously (no wall-clock reasoning).",
        "DESIGN.md section 3, C08",
    ),
    "C09": _tree(
        "exploration",
        "reference-model monitor of the factory (identity, ids, arguments, health, replaced-instance liveness from /proc) over generated call sequences, plus racing callers",
        "A 20-line executable model of get_reusable_executor is run side by side with the real factory on generated sequences with crashes, shutdowns and time-outs; "
        "multi-threaded callers must all get their results.",
        "DESIGN.md section 3, C09",
    ),
    "C10": _tree(
        "exploration",
        "history-based oracle on pid sets before/after each resize with the statement's premise evaluated on the history; delays at every statement of _resize, deaths during it",
        "All (old,new) pairs with in-flight work and idle time-outs; a delay of 3x the timeout at each discovered statement of _resize/_wait_job_completion, worker deaths "
        "during the resize; termination by the C01 watchdog.",
        "DESIGN.md section 3, C10",
    ),
    "C12": _tree(
        "exploration",
        "history + /proc + inotify observation of tracker identity, liveness under signals (external and self-delivered at statement boundaries of main()), resource lifetime vs reaper timestamps, relaunch after SIGKILL",
        "Trees of depth 0-3 in both loky start methods; every member probes the tracker it reports to; signals are delivered to the tracker from outside and at sampled "
        "statement boundaries of its own main() incl. start-up; a registered file must outlive every member and be gone after the tree; after SIGKILL of the tracker the next tracked operation must succeed.",
        "DESIGN.md section 3, C12",
    ),
    "C13": _tree(
        "exploration",
        "exact observation of the semaphore namespace: private tmpfs on /dev/shm per case + inotify create/delete history, listings after each disposal and after the tree ended; tracker stderr classified",
        "Histories of primitive/executor creation, use by children (pickled copies, crashing children) and disposal, with every way of ending incl. SIGKILL of the parent at "
        "statements of submit/spawn/SemLock.__init__; the namespace must be empty after the tree ended, names must disappear when their object is collected, and no 'leaked' report may appear in crash-free histories.",
        "DESIGN.md section 3, C13",
    ),
    "C11": {
        "level": "other",
        "technique": "reference-model runtime monitor on the real tracker loop (recorded clean-up trace vs executable model), exhaustive short sequences + seeded random long ones",
        "text": "The real resource_tracker.main() loop is executed on every request sequence up to a bound (exhaustive) and on seeded random long sequences with "
        "malformed lines and failing clean-up functions; its recorded clean-up/report trace must equal an independent reference model request by request. "
        "This is the right level because the property is a pure function of the byte stream: monitoring the real loop against a model decides it for every "
        "explored input, and the bounded space is covered completely.",
        "design_ref": "DESIGN.md section 3, C11",
        "note": "Trusted: the recorder substitution for the three clean-up functions, the marker-based attribution (uses only the real protocol), the 30-line reference model. "
        "Holds for the sequences explored (all sequences <= bound over a 16-token alphabet; random ones beyond).",
        "engine": "tracker_model",
    },
    "C18": _tree(
        "exploration",
        "observation at the earliest instant of every worker (sitecustomize: inherited fds with inodes, os.environ) vs canaries/keep-lists/parent environment; init tokens in task records; exit-status differential on bare LokyProcesses",
        "Canary descriptors at low/high/sparse numbers, env overlays, both contexts, initializer variants incl. failure on the n-th spawn and forced memory-leak exits, "
        "respawned and resize-added workers; exit codes and terminating signals compared with what the child applied to itself (all 256 codes + 23 signals in the thorough tier).",
        "DESIGN.md section 3, C18",
    ),
    "C19": _tree(
        "exploration",
        "differential oracle: every nesting level reports the depth it observes and the outcome of constructing an executor; compared with the arithmetic of the statement; proc_start records bound the spawned levels",
        "LOKY_MAX_DEPTH in {1,2,3,4,default,0,-1}; chains built to the limit plus one attempt beyond; fork context at depth >= 1; reuse of the same workers, respawn after time-out, resize-added workers.",
        "DESIGN.md section 3, C19",
    ),
    "C20": _tree(
        "exploration",
        "census equality (descriptors by kind, threads, children incl. zombies, /dev/shm entries) after 1 run vs after 1+N runs of the same lifecycle history",
        "Lifecycles plain/reusable/nested x clean (4 ways)/killed/broken/timed-out/resized, sequences of up to 3 lifecycles repeated N in {2,5,20} times; exact equality of the four censuses.",
        "DESIGN.md section 3, C20",
    ),
    "C14": {
        "level": "exploration",
        "technique": "recorded operation histories of real primitives shared by threads and LokyProcess children, checked offline (hold-interval overlap, lost-update counter, phase-structured Condition rounds, WGL linearizability of Event histories) under sys.monitoring delay injection at every statement of Condition/Event methods",
        "text": "Real Lock/RLock/Semaphore/BoundedSemaphore/Condition/Event from LokyContext shared by up to 6 threads and 4 child processes (pickled copies); every operation recorded on the "
        "system-wide monotonic clock; schedules diversified by jitter and by point delays between the semaphore steps of wait/notify/notify_all; ~1.5k histories / 3e5 operations in the quick tier.",
        "design_ref": "DESIGN.md section 3, C14",
        "note": "Trusted: records that prove a hold are timestamped inside the hold; liveness clauses are bounded waits (10 s) judged only when the coordinator itself was not starved; interleavings inside the C code of _multiprocessing.SemLock are not reachable by statement-boundary injection.",
        "engine": "sync_stress",
    },
    "C15": {
        "level": "exploration",
        "technique": "registry snapshots before/after every operation + marker-stamping reducers through real picklers/queues/executors + differential round-trip behaviour + pickler-name probes inside workers with the manager's dispatch delayed by the injector",
        "text": "Seeded orders of pickler/executor creation with custom reducers; copyreg, cloudpickle, pickle and loky registries compared with their pristine snapshots after every step; "
        "reducers stamp markers so any influence on another pickling is visible; built-in reducers checked by behaviour on generated call arguments for both back-ends; the pickler name seen by "
        "the worker compared with the name selected in the parent at submit time.",
        "design_ref": "DESIGN.md section 3, C15",
        "note": "Trusted: every scenario runs in its own child interpreter importing loky from the tree under test; time-outs/crashes of a scenario are inconclusive; only the two installed back-ends are exercised.",
        "engine": "reduction_monitor",
    },
    "C16": {
        "level": "exploration",
        "technique": "differential runtime oracle: generated functions/instances/classes wrapped by the real wrap_non_picklable_objects, compared with the bare object through real pickle round trips and a cross-process leg",
        "text": "Seeded generator of 13 kinds of objects (lambdas, closures, recursive local functions, callable/non-callable instances of local classes, classes with generated "
        "constructors); each is checked fresh, after 3 pickle round trips and as wrapper-of-wrapper for both keep_wrapper values; a child interpreter sends wrappers through a real executor with the plain pickle back-end.",
        "design_ref": "DESIGN.md section 3, C16",
        "note": "Trusted: the bare object as reference; names owned by the wrapper itself (_obj, _keep_wrapper, __doc__, __module__) and implicit special-method lookups are outside the statement and not judged.",
        "engine": "wrapper_gen",
    },
    "C17": {
        "level": "other",
        "technique": "reference-model runtime monitor: the real cpu_count() under substituted OS/affinity/cgroup/env/probe inputs vs an independent formula; exhaustive grid (thorough), seeded sample + random integers (quick)",
        "text": "Every configuration of a 52k-point grid (thorough, exhaustive) or a seeded sample plus arbitrary-integer configurations (quick) is fed to the real cpu_count() "
        "through substituted inputs; return values and the number of fallback warnings are compared with a formula written from the statement.",
        "design_ref": "DESIGN.md section 3, C17",
        "note": "Trusted: the substitution layer (os.cpu_count, sched_getaffinity, psutil, the three cgroup files, LOKY_MAX_CPU_COUNT, the physical-core probe and its cache). "
        "win32 cap (61) accepted in both readings; non-integer override strings are outside the quantifier.",
        "engine": "cpu_model",
    },
}

NOT_YET = "check not built yet in this session (design in DESIGN.md section 3); it will be claimed once built and silent on the unchanged tree"

ENGINES = [
    {"name": "process-tree", "path": "harness/treecheck.py", "serves_properties": [], "kind_free_text": "real loky process trees in private pid+mount namespaces; sys.monitoring LINE injector (sleep/kill/signal at statement boundaries) in every process; client-boundary history + offline oracles"},
    {"name": "tracker_model", "path": "harness/inproc/tracker_model.py", "serves_properties": ["C11"], "kind_free_text": "real resource_tracker.main() on generated byte streams vs executable reference model"},
    {"name": "wrapper_gen", "path": "harness/inproc/wrapper_gen.py", "serves_properties": ["C16"], "kind_free_text": "seeded object generator + differential oracle for wrap_non_picklable_objects"},
    {"name": "sync_stress", "path": "harness/inproc/sync_stress.py", "serves_properties": ["C14"], "kind_free_text": "stress driver for real synchronisation primitives across threads and LokyProcess children + offline history oracles"},
    {"name": "reduction_monitor", "path": "harness/inproc/reduction_monitor.py", "serves_properties": ["C15"], "kind_free_text": "registry snapshots, marker-stamping reducers, round-trip differential, pickler-name probes"},
    {"name": "cpu_model", "path": "harness/inproc/cpu_model.py", "serves_properties": ["C17"], "kind_free_text": "input substitution + reference formula for cpu_count"},
]


def main():
    props = [json.loads(l) for l in open(os.path.join(common.VERIF, "properties.jsonl"))]
    checks = []
    na = []
    for p in props:
        pid = p["id"]
        c = CHECKS.get(pid)
        if c is None:
            na.append({"property_id": pid, "reason": NOT_YET})
            continue
        checks.append(
            {
                "property_id": pid,
                "quick_cmd": "./check %s --tier quick" % pid,
                "thorough_cmd": "./check %s --tier thorough" % pid,
                "evidence_file": "/verif/evidence/%s.json" % pid,
                "replay_cmd_template": "./check replay {path}",
                "engine": c.get("engine", "process-tree"),
                "level_claimed": {"category": c["level"], "text": c["text"], "design_ref": c["design_ref"]},
                "level_note": c["note"],
                "technique": c["technique"],
            }
        )
    engines = []
    for e in ENGINES:
        e = dict(e)
        if e["name"] == "process-tree":
            e["serves_properties"] = [c["property_id"] for c in checks if c["engine"] == "process-tree"]
        engines.append(e)
    try:
        import subprocess

        src = subprocess.run(["git", "-C", common.REPO, "log", "--format=%H %s"], capture_output=True, text=True).stdout.splitlines()
    except Exception:
        src = []
    m = {
        "version": 1,
        "setup_cmd": "/venv/bin/python -m harness.setup",
        "hooks": {
            "guard": "LOKY_VERIF",
            "enable": "PYTHONPATH=/verif/harness/site:/repo LOKY_VERIF=1 LOKY_VERIF_DIR=<case dir>: a sitecustomize.py installs the sys.monitoring LINE monitor/injector in every "
            "interpreter of a case. No hook was added to /repo's sources (source_commits is empty); the commits in /repo are 'fix:' repairs only.",
            "baseline_off_cmd": "cd /repo && /venv/bin/python -m pytest -ra -q -p no:cacheprovider --timeout=900 --continue-on-collection-errors",
            "source_commits": [],
            "add_only": True,
        },
        "engines": engines,
        "checks": checks,
        "notes": "Technique family: runtime monitoring only (DESIGN.md). Exit codes: 0 held / 1 VIOLATION / 2 INCONCLUSIVE (deciding monitors below their floor). "
        "Known findings: harness/known_findings.json. Repairs of genuine defects in /repo: " + "; ".join(s for s in src if " fix:" in s),
        "not_applicable": na,
    }
    with open(os.path.join(common.VERIF, "MANIFEST.json"), "w") as f:
        json.dump(m, f, indent=1)
    print("claimed:", [c["property_id"] for c in checks])


if __name__ == "__main__":
    main()
