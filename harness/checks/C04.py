"""C04 - task-level failures are contained to their own future."""
from .. import explore
from ..gen import programs
from ..oracles import clauses, props
from ..treecheck import TreeCheck


class C04(TreeCheck):
    prop = "C04"
    rule_text = (
        "programs from g_contain (1-6+ faulty tasks - raising incl. SystemExit/KeyboardInterrupt, unpicklable or struct.error arguments, unpicklable "
        "results, exception instances that cannot be pickled, slow pickling, raising done-callbacks - at every position among 5-40 good ones; family too_large (every 5th base): arguments that pickle fine and are refused by send_bytes (driver option send_limit raises struct.error in the feeder thread above 2 MB), up to more of them than the call queue has slots; optionally more unsendable tasks in a row than the "
        "call queue has slots; 1-4 workers; plain and reusable) in profile mode, with a delay (D) in the feeder error path / dispatch / completion, "
        "and jitter (Z). Non-trivial = at least one task-level failure was delivered; distinct = (program shape, mode, injection function, set of "
        "failure classes delivered)."
    )
    assumptions = ["the >2 GiB send_bytes failure is emulated by struct.error raised while pickling the argument", "no worker death in these histories (C02 covers those)"]

    def bases(self, tier, rng):
        n = 14 if tier == "quick" else 120
        # stratified: every flavour of pickling error in turn, every other base with chained done-callbacks
        E = programs.PICKLE_EXCS
        # every 5th base: family too_large (tasks that pickle fine and are refused by send_bytes, through the driver option send_limit)
        return [
            dict(zip(("program", "meta"), programs.g_contain(rng, force_pickle_exc=E[i % len(E)], chain=(i % 2 == 0), too_large=(i % 5 == 3))), config=({"send_limit": programs.SEND_LIMIT} if i % 5 == 3 else {}))
            for i in range(n)
        ]

    def derive(self, base, F, rng, tier):
        quick = tier == "quick"
        out = explore.derive_D(F, base, rng, 16 if quick else 45, quals=["Queue._feed", "_SafeQueue._on_queue_feeder_error", "_ExecutorManagerThread.add_call_item_to_queue",
                                                                    "_ExecutorManagerThread.process_result_item", "_ExecutorManagerThread.wait_result_broken_or_wakeup",
                                                                    "ProcessPoolExecutor.submit", "_ReusablePoolExecutor.submit", "Future._invoke_callbacks",
                                                                    "_ExecutorManagerThread.run", "ProcessPoolExecutor.shutdown"], delay=None)
        out += explore.derive_WD(F, base, rng, 4 if quick else 12, quals=["_process_worker", "_sendback_result", "SimpleQueue.put", "_ExceptionWithTraceback.__init__"])
        out += explore.derive_Z(rng, 3 if quick else 8, p=0.05, dmax=0.01)
        return out

    def oracle(self, case, F):
        return clauses.c01_progress(case, F) + props.c04(case, F)

    def nontrivial(self, case, F):
        fails = sorted({f["done"]["exc"]["type"] for f in F.futs.values() if f["done"] and f["done"]["state"] == "exception"})
        if not fails:
            return None
        m = case["meta"]
        return (m.get("kind"), m.get("kw", {}).get("max_workers"), m.get("flood"), m.get("chain"), m.get("forced_pickle_exc"), m.get("mode"), m.get("fn"), tuple(fails))


def main(tier):
    return C04().run(tier)
