"""C17 - cpu_count() is the minimum of all applicable limits and at least 1.

Reference-model monitor over substituted inputs: the REAL
loky.backend.context.cpu_count runs in this process while every input it
reads is supplied by the harness (harness/inproc/cpu_model.Substitution), and
each return value / warning count is compared with a formula written from the
property statement (cpu_model.reference).

Readings of the statement used here (also listed in the evidence file):
 A1 an OS count of None is read as 1 (the code documents `os.cpu_count() or 1`;
    the result is then 1 whatever the other limits are).
 A2 "a user-imposed limit is below the OS count" = min(applicable affinity
    size, ceil(quota/period), override) < OS count; limits that are not
    applicable (API missing, no/'max'/non-positive quota, variable unset) do
    not take part.
 A3 override 0 / negative: no special case in the code - they enter the min and
    the max(1, .) floor gives 1. Exactly the statement, so they are checked.
 A4 "with one warning": over any sequence of calls sharing the cache in which
    the fallback clause is taken at least once, exactly one detection-failure
    warning is seen. Nothing is demanded about warnings elsewhere (the
    unrelated "Failed to inspect CPU affinity" warning is not counted).
 A5 detection "fails" = probe raises or reports < 1.

Classes deliberately not judged strictly (real behaviour vs. text):
 * sys.platform == 'win32' with OS count > 61: the code (and its docstring)
   caps the OS count at _MAX_WINDOWS_WORKERS before anything else, which the
   statement does not mention. For that class only, the value computed with
   the raw OR the capped OS count is accepted.
 * override strings that are not integers ('' / '2.5' / 'abc') make the real
   function raise ValueError; the statement's quantifier lists integer
   overrides only, so they are not generated (reported, not hidden).
"""
import os
import random
import shutil
import tempfile
import time

from .. import common
from ..inproc import cpu_model as M

MAX_REPLAYS = 25
FLOOR = 1000


class _Mismatch(Exception):
    def __init__(self, cfg, obs, bad):
        Exception.__init__(self, bad[1])
        self.cfg, self.obs, self.bad = cfg, obs, bad


class Run:
    def __init__(self, ctx, V):
        self.ctx = ctx
        self.V = V
        self.sub = M.Substitution(ctx)
        self.evaluations = 0
        self.calls = 0
        self.nontrivial_keys = set()
        self.seen_keys = set()
        self.by_layout = {}
        self.by_path = {}
        self.by_binding = {}
        self.by_affmode = {}
        self.by_probe = {}
        self.by_source = {}
        self.by_platform = {}
        self.values = set()
        self.warnings_seen = 0
        self.affinity_warnings = 0
        self.probe_calls = 0
        self.win_cap_ambiguous = 0
        self.samples = {}
        self.n_replays = 0
        self.replay_prefix = ""

    def _bump(self, d, k):
        d[k] = d.get(k, 0) + 1

    def evaluate(self, cfg, source, record=True):
        """Run one configuration; returns (obs, bad). record=False: only
        measure (used while hypothesis shrinks), verdict recorded by caller."""
        exps = M.expected_for(cfg)
        obs = M.run_scenario(self.sub, cfg)
        bad = M.judge(cfg, obs, exps)
        ref = exps[0]["refs"][-1]
        self.evaluations += 1
        self.calls += len(obs["got"])
        key = M.cfg_key(cfg)
        self.seen_keys.add(key)
        if M.nontrivial(cfg, ref):
            self.nontrivial_keys.add(key)
        self._bump(self.by_layout, cfg["cg"]["layout"])
        self._bump(self.by_path, ref["path"])
        self._bump(self.by_binding, ref["binding"])
        self._bump(self.by_affmode, cfg["aff"]["mode"])
        self._bump(self.by_probe, cfg["probe"]["kind"])
        self._bump(self.by_source, source)
        self._bump(self.by_platform, cfg.get("platform", "linux"))
        if len(exps) > 1:
            self.win_cap_ambiguous += 1
        for g in obs["got"]:
            try:
                self.values.add(g)
            except TypeError:
                pass
        self.warnings_seen += obs["warnings"]
        self.affinity_warnings += obs["affinity_warnings"]
        self.probe_calls += obs["probe_calls"]
        sk = (ref["path"], ref["binding"])
        if bad is None and sk not in self.samples and len(self.samples) < 40:
            self.samples[sk] = {
                "config": cfg,
                "calls": len(obs["got"]),
                "got": obs["got"],
                "expected": exps[0]["values"],
                "clause": ref["path"],
                "binding_limit": ref["binding"],
                "detection_warnings": obs["warnings"],
                "expected_warnings": exps[0]["warn"],
            }
        if record:
            if bad is None:
                self.V.ok()
            else:
                self.report(cfg, obs, bad, exps)
        return obs, bad

    def report(self, cfg, obs, bad, exps=None):
        exps = exps or M.expected_for(cfg)
        ref = exps[0]["refs"][-1]
        clause, why = bad
        calls = M.scenario(cfg)
        seq = " ; ".join(
            "%s cpu_count(only_physical_cores=%r) -> %s [statement: %r via '%s']"
            % (
                "this configuration:" if c is cfg else "priming on an unconstrained 4-CPU machine with the same probe:",
                c["only_physical"],
                repr(obs["got"][i]) if i < len(obs["got"]) else "not reached",
                exps[0]["values"][i],
                exps[0]["paths"][i],
            )
            for i, c in enumerate(calls)
        )
        sig = {
            "clause": clause,
            "only_physical": cfg["only_physical"],
            "layout": cfg["cg"]["layout"],
            "path": ref["path"],
            "binding": ref["binding"],
            "aff_mode": cfg["aff"]["mode"],
            "probe": cfg["probe"]["kind"],
            "override": "absent" if cfg["override"] is None else ("nonpositive" if cfg["override"] <= 0 else "positive"),
            "platform": cfg.get("platform", "linux"),
        }
        text = (
            "%s: %s\n"
            "inputs: os.cpu_count()=%r affinity=%r cgroup=%r LOKY_MAX_CPU_COUNT=%r probe=%r platform=%s only_physical_cores=%r\n"
            "statement: limits=%r OS count read as %d -> logical %d; user limit %r %s OS count -> clause '%s' -> %r\n"
            "call sequence (shared cache, reset before): %s"
            % (
                clause,
                why,
                cfg["os"],
                cfg["aff"],
                cfg["cg"],
                cfg["override"],
                cfg["probe"],
                cfg.get("platform", "linux"),
                cfg["only_physical"],
                ref["limits"],
                ref["os_n"],
                ref["logical"],
                ref["user_limit"],
                "below" if ref["path"] == "user" or ref["binding"] != "os" else "not below",
                ref["path"],
                ref["value"],
                seq,
            )
        )
        replay = None
        # only keep replay directories for what will be printed as VIOLATION
        if self.V.match_known(sig) is None and self.n_replays < MAX_REPLAYS:
            self.n_replays += 1
            name = "%sv%03d-%s" % (self.replay_prefix, self.n_replays, clause)
            replay = common.save_replay(
                "C17",
                name,
                files={
                    "config.json": cfg,
                    "observed.json": {"observed": obs, "expected": [{k: e[k] for k in ("values", "paths", "warn")} for e in exps]},
                    "replay.txt": "cd %s && VERIF_REPO=%s %s -m harness.inproc.cpu_model replays/C17/%s/config.json\n"
                    % (common.VERIF, common.REPO, common.PY, name),
                },
            )
        self.V.violation(sig, text, replay)


def hypothesis_part(run, n_examples, seed):
    """Arbitrary-integer configurations drawn (and shrunk) by hypothesis."""
    # keep hypothesis' on-disk caches out of /verif (it would create ./.hypothesis)
    home = tempfile.mkdtemp(prefix="lv-c17-hyp-")
    os.environ["HYPOTHESIS_STORAGE_DIRECTORY"] = home
    try:
        return _hypothesis_part(run, n_examples, seed)
    finally:
        shutil.rmtree(home, ignore_errors=True)


def _hypothesis_part(run, n_examples, seed):
    try:
        from hypothesis import HealthCheck, Phase, Verbosity, given, settings
        from hypothesis import seed as hseed
        from hypothesis import strategies as st
    except Exception as e:  # pragma: no cover
        return "hypothesis unavailable: %r" % (e,)

    @hseed(seed)
    @settings(
        max_examples=n_examples,
        database=None,
        deadline=None,
        suppress_health_check=list(HealthCheck),
        verbosity=Verbosity.quiet,
        report_multiple_bugs=False,
        phases=(Phase.generate, Phase.shrink),
    )
    @given(st.randoms(use_true_random=False))
    def prop(rnd):
        cfg = M.random_cfg(rnd)
        obs, bad = run.evaluate(cfg, "hypothesis", record=False)
        if bad is not None:
            raise _Mismatch(cfg, obs, bad)
        run.V.ok()

    try:
        prop()
    except _Mismatch as m:  # the shrunk example, re-raised by hypothesis
        run.report(m.cfg, m.obs, m.bad)
    return None


def main(tier):
    t0 = time.monotonic()
    seed = common.seed()
    V = common.Verdicts("C17")
    ctx = M.load_ctx()
    run = Run(ctx, V)
    notes = []
    miss = run.sub.missing_patch_points()
    if miss:
        print("C17: loky.backend.context lacks the substitution points %r" % (miss,))
        rc = V.finish(False, "cannot substitute inputs: %r missing in loky.backend.context" % (miss,))
        common.write_evidence(
            "C17",
            tier,
            "other",
            {"explanation": "substitution points missing: %r; nothing evaluated" % (miss,), "evaluations": 0, "distinct_nontrivial": 0, "rule": "-", "samples": [], "exhaustive": False},
            time.monotonic() - t0,
            violations=0,
            assumptions=[],
        )
        return rc

    # replay directories of this check are named after (seed, tier); drop the
    # ones a previous run with the same (seed, tier) left behind
    run.replay_prefix = "s%d-%s-" % (seed, tier)
    rdir = os.path.join(common.OUT, "replays", "C17")
    if os.path.isdir(rdir):
        for fn in os.listdir(rdir):
            if fn.startswith(run.replay_prefix):
                shutil.rmtree(os.path.join(rdir, fn), ignore_errors=True)

    rng = random.Random(170000 + seed)
    n_grid = M.grid_size()
    exhaustive = tier == "thorough"
    if exhaustive:
        indices = range(n_grid)
        n_random, n_hyp = 20000, 3000
    else:
        indices = sorted(rng.sample(range(n_grid), min(6000, n_grid)))
        n_random, n_hyp = 300, 300

    with run.sub:
        try:
            for i in indices:
                run.evaluate(M.grid_cfg(i), "grid")
            for _ in range(n_random):
                run.evaluate(M.random_cfg(rng), "random")
            err = hypothesis_part(run, n_hyp, seed)
            if err:
                notes.append(err)
                for _ in range(n_hyp):
                    run.evaluate(M.random_cfg(rng), "random")
        finally:
            swallowed = len(run.sub.stderr_capture.getvalue())
            real_probe = run.sub.real_probe_reached
    wall = time.monotonic() - t0

    floor_ok = run.evaluations >= FLOOR and real_probe == 0
    floor_text = "only %d configurations evaluated (< %d)" % (run.evaluations, FLOOR)
    if real_probe:
        floor_text = "the real subprocess probe was reached %d time(s): the probe substitution points moved" % real_probe
    rc = V.finish(floor_ok, floor_text)

    order = [("logical", "os"), ("logical", "cgroup"), ("logical", "floor"), ("user", "affinity"), ("user", "override"), ("physical", "os"), ("fallback", "os")]
    samples = [run.samples[k] for k in order if k in run.samples]
    samples += [v for k, v in sorted(run.samples.items()) if k not in order][: max(0, 8 - len(samples))]
    coverage = {
        "explanation": (
            "reference-model monitor over substituted inputs: the real loky.backend.context.cpu_count() is executed in-process "
            "while os.cpu_count, os.sched_getaffinity (present / absent / NotImplementedError), psutil (fake module / import error / "
            "no cpu_affinity), the three cgroup files (through builtins.open + os.path.exists), LOKY_MAX_CPU_COUNT, sys.platform, the "
            "per-platform physical-core probes and the module cache are supplied by the harness; every return value of 2-4 consecutive "
            "calls per configuration and the number of detection-failure warnings are compared with an independent integer formula "
            "written from the property statement. Any exception is a violation."
        ),
        "evaluations": run.evaluations,
        "distinct_configurations": len(run.seen_keys),
        "distinct_nontrivial": len(run.nontrivial_keys),
        "rule": (
            "thorough: every point of the grid OS{None,1,2,3,8,64} x affinity{1,2,8,64 via sched_getaffinity; API+psutil missing; psutil(2); "
            "NotImplementedError->psutil(8); psutil without cpu_affinity} x cgroup{absent, v2 max, v1 -1, v2 quota x5 ratios, v1 files x5 ratios "
            "(1.5, 2.0, 0.5, 1e7, 8.00001)} x override{absent,0,-3,1,5,10^6} x probe{4,1,128,0,raises,cached 4,cached failure} x "
            "only_physical{F,T} (%d points), plus seeded arbitrary-integer configurations (random.Random and hypothesis st.randoms, values "
            "clustered +-1 around a common base, platforms linux/win32/darwin); quick: a seeded sample of 6000 grid points + ~600 "
            "arbitrary-integer ones. distinct = distinct configuration JSON; non-trivial = the statement's min is decided by a limit other "
            "than the OS count (affinity, cgroup, override or the >=1 floor), or only_physical_cores=True reaches the physical-core clause "
            "(probe value returned, or fallback with warning)." % n_grid
        ),
        "samples": samples,
        "exhaustive": bool(exhaustive),
        "grid_size": n_grid,
        "grid_points_evaluated": run.by_source.get("grid", 0),
        "cpu_count_calls": run.calls,
        "per_source": run.by_source,
        "per_cgroup_layout": run.by_layout,
        "per_statement_clause": run.by_path,
        "per_binding_limit": run.by_binding,
        "per_affinity_mode": run.by_affmode,
        "per_probe_outcome": run.by_probe,
        "per_platform": run.by_platform,
        "distinct_return_values": len(run.values),
        "detection_warnings_observed": run.warnings_seen,
        "affinity_warnings_observed_not_judged": run.affinity_warnings,
        "substituted_probe_calls": run.probe_calls,
        "win32_cap_two_readings_accepted": run.win_cap_ambiguous,
        "stderr_bytes_swallowed_from_fallback_traceback": swallowed,
        "notes": notes,
    }
    common.write_evidence(
        "C17",
        tier,
        "other",
        coverage,
        wall,
        violations=len(V.violations),
        assumptions=[
            "A1: an OS count of None is read as 1 (code: `os.cpu_count() or 1`), so the result is 1 for every other input",
            "A2: 'user-imposed limit' = min over the APPLICABLE ones of affinity size, ceil(quota/period), override; not applicable = API and psutil missing, quota absent/'max'/<= 0, variable unset",
            "A3: override 0 and negative enter the min and are floored to 1 (no exception) - checked, not excluded",
            "A4: 'one warning' = exactly one detection-failure warning over a call sequence sharing the cache that takes the fallback clause at least once; the 'Failed to inspect CPU affinity' warning is not counted; warnings in other sequences are counted but not judged",
            "A5: detection fails = probe raises an Exception or reports < 1",
            "win32 with OS count > %d: code caps the OS count first (documented in its docstring, absent from the statement); both readings accepted for that class only" % M.WIN_CAP,
            "non-integer LOKY_MAX_CPU_COUNT strings (real function raises ValueError) are outside the statement's quantifier and not generated",
            "quota <= 1e12 with period 1e5 in the grid, quota <= 1e9 and 1000 <= period <= 1e6 otherwise (kernel bounds), so float ceil(q/p) in the code and exact integer ceil in the model cannot differ by rounding",
            "the OS-specific probe bodies (lscpu, powershell, sysctl) are replaced, not exercised; the module cache is reset through loky.backend.context.physical_cores_cache = None between configurations",
        ],
    )
    return rc
