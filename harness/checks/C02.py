"""C02 - abrupt worker death is always detected and fails the pool loudly."""
from .. import explore
from ..gen import programs
from ..oracles import clauses, props
from ..treecheck import TreeCheck


class C02(TreeCheck):
    prop = "C02"
    level = "fault_enumeration"
    rule_text = (
        "programs from g_crash (1-5 workers, plain/reusable, optional initializer, 4-20 tasks some queued/running/done, a submit after the death, "
        "waited shutdown) are profiled, then one worker is killed at a statement boundary of its life (start-up, Queue.__setstate__, initializer, "
        "blocked/reading in Queue.get incl. under _rlock, unpickling, running, _sendback_result / SimpleQueue.put under _wlock, idle, memory-check "
        "branch, time-out/exit handshake) by SIGKILL/SIGSEGV/SIGTERM/os._exit(n)/C exit(n); plus die() tasks, unpicklable results/arguments and "
        "external chaos kills; plus manager-thread delays combined with a death (DK); plus linger-then-die (LK: the worker stays 0.3-0.6 s at the statement where it then dies, holding what it holds there, "
        "while siblings keep the manager thread looping - family idle_sibling makes the time-out branch recur). Non-trivial = a death actually happened; distinct = "
        "(program shape, function where the worker died, cause, announcement state, outcome classes of the futures)."
    )
    assumptions = [
        "deaths after the worker announced its exit, after it received a sentinel, or after a shutdown/resize/exit request are exempt from 'must become broken' (clean by the statement's own wording) but still subject to termination and reaping",
        "kill points are statement boundaries + random instants, not every machine instruction",
    ]

    def bases(self, tier, rng):
        n = 12 if tier == "quick" else 60
        out = []
        for i in range(n):
            prog, meta = programs.g_crash(rng, force_churn=(i % 6 == 1), family="idle_sibling" if i % 6 == 3 else None)
            out.append({"program": prog, "config": {"keep_procs": True, "sigchld_ignore": bool(meta.get("sigchld_ignore"))}, "meta": meta})
        return out

    def derive(self, base, F, rng, tier):
        quick = tier == "quick"
        out = explore.derive_K(F, base, rng, 26 if quick else 0, n_workers=1 if quick else 2, enumerate_all=not quick)
        # two independent deaths
        ks = explore.derive_K(F, base, rng, 6 if quick else 20, n_workers=2)
        for a, b in zip(ks[::2], ks[1::2]):
            out.append(({"rules": a[0]["rules"] + b[0]["rules"]}, {"mode": "KK", "fn": a[1]["fn"], "act": a[1]["act"]}))
        # manager delayed at its detection / termination statements while a worker dies
        ds = explore.derive_D(F, base, rng, 8 if quick else 40, quals=["_ExecutorManagerThread.wait_result_broken_or_wakeup", "_ExecutorManagerThread.process_result_item",
                                                                      "_ExecutorManagerThread.terminate_broken", "_ExecutorManagerThread.kill_workers",
                                                                      "_ExecutorManagerThread.add_call_item_to_queue", "_ExecutorManagerThread.run",
                                                                      "_kill_process_tree_with_psutil", "_kill_process_tree_without_psutil", "kill_process_tree", "_posix_recursive_kill",
                                                                      "get_exitcodes_terminated_worker"], delay=0.2)
        ks2 = explore.derive_K(F, base, rng, len(ds), n_workers=1)
        for d, k in zip(ds, ks2):
            out.append(({"rules": d[0]["rules"] + k[0]["rules"]}, {"mode": "DK", "fn": k[1]["fn"], "act": k[1]["act"], "dfn": d[1]["fn"]}))
        # a worker of the second wave (spawned by a submit while the manager thread is already running) dies at start-up
        if base["meta"].get("second_wave"):
            mw = base["meta"]["kw"]["max_workers"]
            late = sorted({p["proc"] for p in explore.points_of(F, role="worker") if p["proc"] and p["proc"].startswith("LokyProcess-") and int(p["proc"].split("-")[1].split(":")[0]) > mw})
            startup_quals = ["<module>", "BaseProcess._bootstrap", "Queue.__setstate__", "SimpleQueue.__setstate__", "SemLock.__setstate__", "_process_worker", "prepare", "_enable_faulthandler_if_needed"]
            for w in late[:2]:
                pts = [p for p in explore.points_of(F, role="worker", proc=w, quals=startup_quals) if not (p["qual"] == "_process_worker" and p["rel"] > 50)]
                for pt in explore.stratified_sample(pts, 4 if quick else 12, rng):
                    act = rng.choice(explore.KILL_ACTIONS)
                    rules = [explore.rule(pt, act, hit=1)]
                    if rng.random() < 0.5:
                        # widen the window between submit's bookkeeping and the spawn it triggers
                        for dp in explore.points_of(F, role="driver", thr="user", quals=["ProcessPoolExecutor._ensure_executor_running"])[:1]:
                            rules.append(explore.rule(dp, ["sleep", 0.03], hit=0))
                    out.append(({"rules": rules}, {"mode": "K2", "fn": pt["qual"], "act": act[0] + str(act[1])}))
        if base["meta"].get("churn"):
            # the manager thread is slowed at every statement of the tree-kill helper: a short-lived child listed by
            # psutil is gone by the time it is signalled
            for pt in explore.points_of(F, role="driver", thr="mgr", quals=["_kill_process_tree_with_psutil"])[:8]:
                out.append(({"rules": [explore.rule(pt, ["sleep", 0.08], hit=0)]}, {"mode": "DS", "fn": pt["qual"]}))
        # linger-then-die: the worker holds what it holds at that statement while the manager thread keeps looping
        fam = base["meta"].get("family") == "idle_sibling"
        out += explore.derive_LK(F, base, rng, (10 if fam else 3) if quick else (30 if fam else 8),
                                 quals=["_process_worker", "SimpleQueue.put", "Queue.get", "SemLock.__enter__", "SemLock.__exit__", "_sendback_result"])
        if fam:
            # targeted: the idle worker lingers between acquire and release of the management lock in its time-out branch, then dies
            rel = explore.rel_of_source("process_executor.py", "_process_worker", "processes_management_lock.release()")
            workers = sorted({p["proc"] for p in explore.points_of(F, role="worker", quals=["_process_worker"]) if p["proc"]})
            if rel is not None:
                # which worker idles out first differs from run to run: the rule applies to whichever reaches the statement
                for act in (["kill", "SIGKILL"], ["exit", 3], ["kill", "SIGTERM"]):
                    for linger in (0.3, 0.6):
                        pt = {"role": "worker", "proc": None, "thr": "user", "file": "process_executor.py", "qual": "_process_worker", "rel": rel}
                        out.append(({"rules": [explore.rule(pt, ["sleep", linger], hit=1), explore.rule(pt, act, hit=1)]}, {"mode": "LK", "fn": "_process_worker", "act": act[0] + str(act[1]), "at": "management_lock_held"}))
        out += explore.derive_Z(rng, 1 if quick else 3)
        return out

    def oracle(self, case, F):
        return clauses.c01_progress(case, F) + props.c02(case, F)

    def nontrivial(self, case, F):
        deaths = props.worker_deaths(F)
        if not deaths:
            return None
        m = case["meta"]
        oc = tuple(sorted({(f["done"]["state"] + ":" + (f["done"].get("exc") or {}).get("type", "")) if f["done"] else "pending" for f in F.futs.values()}))
        d0 = deaths[0]
        pt = d0.get("pt") or [None, None, None]
        return (m.get("kind"), m.get("kw", {}).get("max_workers"), m.get("mode"), pt[1], m.get("act"), d0["ann"], oc)

    def extra_coverage(self):
        return {}

    def budget(self, tier):
        return 200 if tier == "quick" else 2400


def main(tier):
    return C02().run(tier)
