"""C11 - the resource tracker's reference counts are exact (reference-model monitor)."""
import json
import subprocess
import sys
import time

from .. import common

PROP = "C11"


def run_jobs(jobs, par):
    procs = []
    results = []
    pending = list(jobs)
    running = []
    while pending or running:
        while pending and len(running) < par:
            j = pending.pop(0)
            p = subprocess.Popen(
                [common.PY, "-m", "harness.inproc.tracker_model", json.dumps(j)],
                stdout=subprocess.PIPE,
                stderr=subprocess.PIPE,
                env=common.repo_env(),
                cwd=common.VERIF,
            )
            running.append((j, p))
        for j, p in list(running):
            if p.poll() is not None:
                out, err = p.communicate()
                running.remove((j, p))
                try:
                    results.append((j, json.loads(out.decode())))
                except ValueError:
                    results.append((j, {"error": (err.decode(errors="replace") or out.decode(errors="replace"))[-1500:]}))
        time.sleep(0.02)
    return results


def real_stage(tier, seed, V):
    """Stage 2: real resources, real tracker process, 1-4 client processes."""
    import os
    import random
    import shutil

    from ..inproc import tracker_real

    rng = random.Random(seed * 31 + 7)
    n = 60 if tier == "quick" else 600
    base = common.scratch_root()
    jobs = []
    for i in range(n):
        d = os.path.join(base, "r%04d" % i)
        os.makedirs(d)
        ncl = rng.choice([1, 1, 2, 3, 4])
        names = [("file", "fa"), ("file", "fb:c"), ("folder", "fd"), ("file", "fd/inner.txt"), ("semlock", "/lvt-%d-%d-%d" % (os.getpid(), seed, i))]
        use = rng.sample(names, rng.randint(1, len(names)))
        if ("file", "fd/inner.txt") in use and ("folder", "fd") not in use:
            use.append(("folder", "fd"))
        steps = []
        created = set()
        for _ in range(rng.randint(4, 22)):
            rtype, name = rng.choice(use)
            cmd = rng.choices(["REGISTER", "MAYBE_UNLINK", "UNREGISTER"], [5, 5, 1])[0]
            if name == "fd/inner.txt" and ("folder", "fd") not in created:
                rtype, name, cmd = "folder", "fd", "REGISTER"
            if cmd == "REGISTER":
                created.add((rtype, name))
            steps.append([rng.randrange(ncl), cmd, name, rtype])
        jobs.append({"repo": common.REPO, "dir": d, "n_clients": ncl, "steps": steps, "burst": rng.choice([150, 400, 900]) if i % 6 == 2 else 0})
    stats = {"burst_cases": 0, "burst_requests": 0, "cases": 0, "steps": 0, "destructions_observed": 0, "eof_sweeps_checked": 0, "multi_client_cases": 0, "inconclusive": 0}
    samples = []
    running = []
    pending = list(jobs)
    results = []
    while pending or running:
        while pending and len(running) < max(2, common.NCPU // 2):
            j = pending.pop(0)
            errf = open(os.path.join(j["dir"], "stderr.txt"), "ab")
            p = subprocess.Popen([common.PY, "-m", "harness.inproc.tracker_real", json.dumps(j)], stdout=subprocess.PIPE, stderr=errf,
                                 env=common.repo_env(), cwd=common.VERIF)
            running.append((j, p, time.monotonic()))
        for j, p, ts in list(running):
            if p.poll() is not None:
                out = p.stdout.read()
                running.remove((j, p, ts))
                results.append((j, out))
            elif time.monotonic() - ts > 120:
                p.kill()
                running.remove((j, p, ts))
                results.append((j, b""))
        time.sleep(0.01)
    for j, out in results:
        try:
            rep = json.loads(out.decode())
        except ValueError:
            stats["inconclusive"] += 1
            V.inconc("real_tracker_case_failed")
            continue
        stats["cases"] += 1
        stats["steps"] += len(rep["steps"])
        stats["multi_client_cases"] += 1 if j["n_clients"] > 1 else 0
        if rep.get("burst"):
            stats["burst_cases"] += 1
            stats["burst_requests"] += 3 * rep["burst"]
        stats["destructions_observed"] += sum(1 for s_ in rep["steps"] if s_[4] and not s_[5])
        viol = rep.get("violation")
        if viol is None:
            # wait for the tracker to see EOF and finish its end-of-life sweep
            t1 = time.monotonic()
            while os.path.exists("/proc/%d" % rep["tracker_pid"]) and time.monotonic() - t1 < 15:
                time.sleep(0.005)
            if os.path.exists("/proc/%d" % rep["tracker_pid"]):
                viol = {"clause": "tracker_outlives_all_clients", "text": "tracker pid %d still alive 15 s after its last client exited" % rep["tracker_pid"]}
            else:
                stats["eof_sweeps_checked"] += 1
                left = [k for k in rep["counted_at_end"] if tracker_real._exists(k[0], k[1])]
                gone = [k for k in rep["uncounted_existing_at_end"] if not tracker_real._exists(k[0], k[1]) and not any(k[1].startswith(c[1] + "/") for c in rep["counted_at_end"] if c[0] == "folder")]
                err = open(os.path.join(j["dir"], "stderr.txt"), errors="replace").read()
                if left:
                    viol = {"clause": "not_swept_at_end_of_life", "text": "still counted at end of life but not destroyed: %s" % left}
                elif gone:
                    viol = {"clause": "destroyed_after_unregister", "text": "unregistered / never counted resources destroyed by the end-of-life sweep: %s" % gone}
                elif "FileNotFoundError" in err and any(c[0] == "folder" for c in rep["counted_at_end"]) and any(c[1].endswith("inner.txt") for c in rep["counted_at_end"]):
                    viol = {"clause": "folders_not_last", "text": "the sweep hit FileNotFoundError on a tracked file inside a tracked folder: the folder was removed first\n" + err[-600:]}
        if viol is not None:
            rp = common.save_replay(PROP, "real-s%d-%d" % (seed, len(V.violations)), files={"job.json": j, "report.json": rep})
            V.violation({"clause": viol["clause"], "stage": "real"}, viol["text"] + "\nsteps: " + json.dumps(j["steps"])[:1200], rp)
        else:
            V.ok()
        if len(samples) < 2 and rep["steps"]:
            samples.append({"n_clients": j["n_clients"], "steps": rep["steps"][:12]})
        # leftovers of this case (unregistered resources, semaphores)
        for st in j["steps"]:
            if st[3] == "semlock":
                try:
                    import _multiprocessing

                    _multiprocessing.sem_unlink(st[2])
                except Exception:
                    pass
    shutil.rmtree(base, ignore_errors=True)
    stats["samples"] = samples
    return stats


def main(tier):
    t0 = time.monotonic()
    seed = common.seed()
    V = common.Verdicts(PROP)
    jobs = []
    par = common.NCPU
    if tier == "quick":
        lens = [1, 2, 3, 4, 5]
        nrand, nsh = 32000, 16
    else:
        lens = [1, 2, 3, 4, 5, 6]
        nrand, nsh = 400000, 16
    for L in lens:
        ns = 1 if L <= 3 else (8 if L == 4 else 16 if L == 5 else 64)
        for s in range(ns):
            jobs.append({"mode": "exhaustive", "len": L, "shard": s, "nshards": ns, "repo": common.REPO})
    for s in range(nsh):
        jobs.append({"mode": "random", "seed": seed * 1000 + s, "n": nrand // nsh, "maxlen": 40 if tier == "quick" else 80, "repo": common.REPO})
    results = run_jobs(jobs, par)
    tot = {"evaluated": 0, "nontrivial": 0, "cleanups_expected": 0, "reports_expected": 0, "max_len": 0}
    samples = []
    errors = []
    exhaustive_counts = {}
    for j, r in results:
        if "error" in r:
            errors.append(r["error"])
            continue
        for k in ("evaluated", "nontrivial", "cleanups_expected", "reports_expected"):
            tot[k] += r[k]
        tot["max_len"] = max(tot["max_len"], r["max_len"])
        if j["mode"] == "exhaustive":
            exhaustive_counts[j["len"]] = exhaustive_counts.get(j["len"], 0) + r["evaluated"]
        if len(samples) < 6:
            samples.extend(r["samples"][:1])
        V.ok(r["evaluated"] - len(r["violations"]))
        for i, v in enumerate(r["violations"]):
            name = "s%d-%s-%s-%d-%d" % (seed, tier, j["mode"], j.get("len", 0), len(V.violations))
            rp = common.save_replay(PROP, name, files={"sequence.json": v, "job.json": j})
            V.violation({"clause": v["clause"]}, "%s\nrequests: %s" % (v["text"], json.dumps(v["requests"])[:1500]), rp)
    for e in errors[:3]:
        V.inconc("shard_failed")
        print("shard failed:\n" + e, file=sys.stderr)
    real = real_stage(tier, seed, V)
    expected_exh = {L: 16 ** L for L in lens}
    exh_ok = all(exhaustive_counts.get(L) == n for L, n in expected_exh.items())
    cov = {
        "explanation": "Reference-model monitor: the real resource_tracker.main(fd) loop consumes generated byte streams (exact client encoding "
        "for structured requests, raw bytes for malformed ones) with the three clean-up functions, sys.excepthook and warnings replaced by "
        "recorders; marker requests attribute each clean-up to the request that caused it; the trace is compared with a reference model "
        "written from the statement (exact per-request clean-ups, reports for unambiguous malformed classes, end-of-life sweep with folders last, "
        "loop liveness).",
        "evaluations": tot["evaluated"],
        "distinct_nontrivial": tot["nontrivial"],
        "rule": "exhaustive: every sequence of length <= %d over 12 structured requests (3 commands x names {a, b:c} x types {file, folder}) + 4 malformed "
        "lines; random: seeded sequences up to length %d over 11 names (with ':' and spaces), 3 types, unknown commands/types, binary/undecodable/"
        "truncated/over-long lines, PROBE, and failing clean-up functions (OSError and BaseException). Non-trivial = the model expects at least one "
        "destruction; exhaustive sequences are distinct by construction, random ones counted without de-duplication of repeats across shards."
        % (max(lens), 40 if tier == "quick" else 80),
        "samples": samples[:6],
        "exhaustive": bool(exh_ok),
        "exhaustive_sequences_by_length": exhaustive_counts,
        "cleanups_checked": tot["cleanups_expected"],
        "reports_checked": tot["reports_expected"],
        "longest_sequence": tot["max_len"],
        "shards": len(jobs),
        "shards_failed": len(errors),
        "real_resource_stage": {k: v for k, v in real.items()},
    }
    floor_ok = tot["evaluated"] >= 20000 and not errors and exh_ok and real["cases"] >= 20
    common.write_evidence(
        PROP, tier, "other", cov, time.monotonic() - t0, len(V.violations),
        [
            "the clean-up functions (os.unlink, shutil.rmtree, sem_unlink) are replaced by recorders: their own correctness is not the subject",
            "truncated lines such as 'REGISTER:file' are parsed by the code as a registration of the empty name; for those only non-interference and liveness are demanded",
            "multi-client atomicity of <=512-byte pipe writes is the kernel's guarantee and is exercised by the process-tree checks, not here",
        ],
    )
    return V.finish(floor_ok, "only %d sequences evaluated, %d shard(s) failed, exhaustive complete=%s" % (tot["evaluated"], len(errors), exh_ok))
