"""C16 - wrap_non_picklable_objects is behaviour-preserving.

Runtime monitor with a differential oracle: the bare object is the reference.
For every generated object (harness/inproc/wrapper_gen.py) and both
keep_wrapper values the REAL loky.cloudpickle_wrapper.wrap_non_picklable_objects
and the REAL pickle.dumps/loads are exercised and compared with the bare object:

  callable_iff                       callable(w) == callable(obj)
  call_result / attr_read / method_call
                                     same value (type + repr) or same exception type
  roundtrip_fails                    pickle.loads(pickle.dumps(w)) works whenever
                                     cloudpickle.dumps(obj) works
  keep_wrapper_false_still_wrapped / keep_wrapper_true_unwrapped
                                     after round trip 1, 2 and 3
  ctor_exception                     W(*a, **k) raises what Cls(*a, **k) raises
  (stages ww_*)                      the same for a wrapper of a wrapper
  xproc_*                            the same through a real loky executor whose
                                     pickler is plain pickle (child process)

Not demanded (see ASSUMPTIONS): implicit special-method lookups, names the
wrapper object defines itself, picklability of the wrapped *class* object, the
concrete wrapper class after a round trip.
"""
import collections
import hashlib
import json
import multiprocessing
import os
import pickle
import signal
import subprocess
import sys
import time

from .. import common
from ..inproc import wrapper_gen as G

PROP = "C16"
N_RECIPES = {"quick": 1700, "thorough": 20500}  # x both keep_wrapper values = evaluations
XPROC_N = {"quick": 36, "thorough": 200}
XPROC_TIMEOUT = {"quick": 150, "thorough": 420}
BUDGET = {"quick": 38, "thorough": 320}
FLOOR = 500
FULL_DETAIL_PER_CLAUSE = 12  # per chunk; later violations of the same clause carry a short text
MAX_REPLAYS_PER_SIG = 3

ASSUMPTIONS = [
    "premise 'cloudpickle can serialise the object' is evaluated by calling cloudpickle.dumps on the bare object; examples where it fails are inconclusive, not violations",
    "results of calls/attribute reads are plain data by construction of the generator, so (type name, repr) is an exact identity; exceptions are compared by type only",
    "implicit special-method lookups (len(w), w + 1, iteration) are not demanded: they bypass __getattr__ by language rule and the statement speaks of attribute reads and calls",
    "names the wrapper object defines itself are outside the quantifier and are never generated as attribute/keyword names: _obj, _keep_wrapper, the object-protocol dunders every instance has (__doc__, __module__, __class__, __dict__, __reduce__...), and the keyword 'self' of CallableObjectWrapper.__call__/CloudpickledClassWrapper.__init__; what the pinned code does for them is recorded in coverage.reserved_name_observations",
    "'still wrapped' means isinstance(x, CloudpickledObjectWrapper); the concrete wrapper class may change across a round trip (CloudpickledClassWrapper -> CallableObjectWrapper / CloudpickledObjectWrapper)",
    "the wrapped class object itself (W = wrap(Cls)) is not required to be picklable, only its instances",
    "for a wrapper of a wrapper the rule is applied twice: it arrives wrapped iff the outer or the inner keep_wrapper is True",
    "with keep_wrapper=False the unwrapped result is re-pickled by re-wrapping it (2nd trip) or by cloudpickle (3rd trip), never by plain pickle",
    "stateful subjects: every stage is compared with a fresh bare object to which the same operation list was applied the same number of times",
    "cross-process leg: loky pickler set to 'pickle' in a child interpreter (LOKY_PICKLER=pickle and set_loky_pickler('pickle')); a task that times out is inconclusive",
]

RULE = (
    "Each evaluation = one recipe x one keep_wrapper value. Recipes are drawn by a seeded generator (random.Random('c16||<VERIF_SEED>|<index>')) "
    "over 13 kinds: lambda, closure (incl. stateful nonlocal counter), nested_def, recursive (fact/fib/mutual/lambda/nested-list), sig_func "
    "(positional/default/*args/kw-only/**kw signatures, raising guards), dyn_toplevel (top-level def of a non-importable module), "
    "callable_instance, noncallable_instance (local classes with generated attributes incl. underscore names, methods, properties, "
    "static/class methods, __getattr__, base classes, mutable state), class_plain, class_callable (generated constructor signatures and "
    "arguments incl. invalid ones), importable_callable / importable_instance / importable_class (plain-picklable controls). Each is built by "
    "exec of generated source in a namespace whose __name__ is not importable. Per evaluation: fresh wrapper, round trips 1..3 through real "
    "pickle, wrapper-of-wrapper with an independently drawn inner keep_wrapper and two more round trips; at every stage callable(), all generated "
    "calls, attribute reads and method calls are compared with a fresh bare object. distinct_nontrivial counts distinct "
    "(kind, keep_wrapper, n_roundtrips, plain_picklable=False, recipe hash) tuples for which pickle.dumps(bare object) FAILED and a real wrapper "
    "was pushed through pickle.dumps/loads at that round-trip depth without error."
)


class _Loky:
    def __init__(self):
        common.ensure_repo_on_path()
        import cloudpickle
        from loky import wrap_non_picklable_objects
        from loky.cloudpickle_wrapper import CloudpickledObjectWrapper

        self.wrap = wrap_non_picklable_objects
        self.CW = CloudpickledObjectWrapper
        self.cloudpickle = cloudpickle


# --------------------------------------------------------------------------- #
# one evaluation


class _Eval:
    def __init__(self, L, example):
        self.L = L
        self.ex = example
        self.recipe = example["recipe"]
        self.kw = example["keep_wrapper"]
        self.inner_kw = example["inner_keep_wrapper"]
        self.mode = example["mode"]
        self.subj = G.Subject(self.recipe)
        self.fails = []  # dicts
        self.stats = collections.Counter()
        self.nontrivial = []
        self.inconclusive = None
        self.plain_ok = None
        self.trace = []

    def fail(self, clause, stage, expected, got):
        if any(f["clause"] == clause and f["stage"] == stage for f in self.fails):
            self.stats["suppressed_same_clause_stage"] += 1
            return
        self.fails.append({"clause": clause, "stage": stage, "expected": expected, "got": got})

    # -- behaviour of one subject against a fresh bare reference ----------- #
    def compare(self, S, prior, stage):
        ops = self.subj.ops
        R = self.subj.instance(prior)
        cs, cr = callable(S), callable(R)
        self.stats["callable_compared"] += 1
        skip_calls = False
        if cs != cr:
            self.fail(
                "callable_iff",
                stage,
                "callable(obj) is %s" % cr,
                "callable(wrapped) is %s (wrapped is a %s)" % (cs, " < ".join(c.__name__ for c in type(S).__mro__[:-1])),
            )
            skip_calls = True
        exp = G.apply_ops(R, ops)
        got = G.apply_ops(S, ops, skip_calls=skip_calls)
        for op, e, g in zip(ops, exp, got):
            if g is None:
                continue
            self.stats[{"call": "calls_compared", "attr": "attr_reads_compared", "meth": "method_calls_compared"}[op[0]]] += 1
            if e.startswith("E:"):
                self.stats["comparisons_where_obj_raises"] += 1
            if e != g:
                self.fail(
                    {"call": "call_result", "attr": "attr_read", "meth": "method_call"}[op[0]],
                    stage,
                    "%s gives %s on the bare object" % (G.op_text(op), e[:300]),
                    g[:300],
                )

    def _is_w(self, x):
        return isinstance(x, self.L.CW)

    def outer_protocol(self, stage):
        """Protocol of the enclosing plain pickler: 'a plain-pickle round trip' covers every protocol the
        standard library offers (0..HIGHEST and the default); drawn per (recipe, stage), reproducibly."""
        choices = [None] + list(range(pickle.HIGHEST_PROTOCOL + 1))
        h = hashlib.sha1(("%s|%s|%s" % (self.recipe["hash"], self.kw, stage)).encode()).digest()
        proto = choices[h[0] % len(choices)]
        self.stats["outer_protocol:%s" % ("default" if proto is None else proto)] += 1
        return proto

    # -- one pickle round trip --------------------------------------------- #
    def roundtrip(self, s, i, stage, exp_wrapped):
        L = self.L
        how = "?"
        was_wrapper = False
        try:
            if self._is_w(s):
                proto = self.outer_protocol(stage)
                how, was_wrapper = "pickle.dumps(wrapper, protocol=%r)" % proto, True
                data = pickle.dumps(s, protocol=proto)
            elif i == 2:
                proto = self.outer_protocol(stage)
                how, was_wrapper = "pickle.dumps(wrap(unwrapped result, keep_wrapper=False), protocol=%r)" % proto, True
                data = pickle.dumps(L.wrap(s, keep_wrapper=False), protocol=proto)
            else:
                how = "cloudpickle.dumps(unwrapped result)"
                data = L.cloudpickle.dumps(s)
            out = pickle.loads(data)
        except Exception as e:  # noqa: BLE001
            self.fail(
                "roundtrip_fails",
                stage,
                "pickle.loads(%s) succeeds (cloudpickle.dumps(bare object) does; plain pickle of bare object %s)" % (how, "works" if self.plain_ok else "fails"),
                "%s: %s" % (type(e).__name__, str(e)[:300]),
            )
            return None
        self.stats["roundtrips"] += 1
        is_w = self._is_w(out)
        self.trace.append("%s:%s" % (stage, "wrapped" if is_w else "bare"))
        if is_w != exp_wrapped:
            if exp_wrapped:
                self.fail("keep_wrapper_true_unwrapped", stage, "still a CloudpickledObjectWrapper after %s" % how, "arrived as bare %s" % type(out).__name__)
            else:
                self.fail("keep_wrapper_false_still_wrapped", stage, "the bare object after %s" % how, "arrived as %s" % type(out).__name__)
        if was_wrapper and not self.plain_ok and not stage.startswith("ww"):
            self.nontrivial.append((self.recipe["kind"], self.kw, i, False, self.recipe["hash"]))
        return out

    def chain(self, first, names, exp_wrapped):
        """names[0] is the stage of `first`; names[1:] are successive round trips."""
        if self.mode == "pickle_first":
            seq = [first]
            for i, nm in enumerate(names[1:], 1):
                nxt = self.roundtrip(seq[-1], i, nm, exp_wrapped)
                if nxt is None:
                    break
                seq.append(nxt)
            for s, nm in zip(seq, names):
                self.compare(s, 0, nm)
        else:  # interleaved: use, pickle, use, pickle ... state travels with the pickle
            s = first
            self.compare(s, 0, names[0])
            for i, nm in enumerate(names[1:], 1):
                s = self.roundtrip(s, i, nm, exp_wrapped)
                if s is None:
                    break
                self.compare(s, i, nm)

    def run(self):
        L, subj, kw = self.L, self.subj, self.kw
        ref_exc = None
        bare = None
        try:
            bare = subj.instance()
        except Exception as e:  # noqa: BLE001 - generated constructor arguments may be invalid on purpose
            ref_exc = type(e).__name__
        base = subj.build()
        try:
            if subj.is_class:
                Wc = L.wrap(base, keep_wrapper=kw)
                if not callable(Wc):
                    self.fail("callable_iff", "wrap_class", "wrapping a class yields a constructor", "not callable: %r" % (Wc,))
                    return self
            else:
                w = L.wrap(base, keep_wrapper=kw)
        except Exception as e:  # noqa: BLE001
            self.fail("wrap_raises", "wrap", "wrap_non_picklable_objects(obj) returns", "%s: %s" % (type(e).__name__, e))
            return self
        if subj.is_class:
            w_exc = None
            try:
                w = Wc(*subj.ctor[0], **subj.ctor[1])
            except Exception as e:  # noqa: BLE001
                w_exc = type(e).__name__
            if ref_exc or w_exc:
                self.stats["ctor_raise_compared"] += 1
                if ref_exc != w_exc:
                    self.fail(
                        "ctor_exception",
                        "construct",
                        "Cls(*%r, **%r) %s" % (subj.ctor[0], subj.ctor[1], "raises " + ref_exc if ref_exc else "returns an instance"),
                        "W(...) %s" % ("raises " + w_exc if w_exc else "returns an instance"),
                    )
                return self
        # premise: cloudpickle can serialise the bare object
        try:
            L.cloudpickle.dumps(bare)
        except Exception as e:  # noqa: BLE001
            self.inconclusive = "cloudpickle_cannot_serialise:%s" % type(e).__name__
            return self
        try:
            pickle.loads(pickle.dumps(bare))
            self.plain_ok = True
        except Exception:  # noqa: BLE001
            self.plain_ok = False
        self.stats["plain_picklable" if self.plain_ok else "plain_unpicklable"] += 1
        if "__slots__" in self.recipe["src"]:
            self.stats["slotted_instance"] += 1

        self.chain(w, ["fresh", "rt1", "rt2", "rt3"], kw)

        # the SAME wrapper pickled twice with a use in between: the second pickle must carry the state the
        # wrapped object has *then* (repeated round trips of one wrapper, not only of its copies)
        try:
            base3 = subj.build()
            w3 = L.wrap(base3, keep_wrapper=kw)(*subj.ctor[0], **subj.ctor[1]) if subj.is_class else L.wrap(base3, keep_wrapper=kw)
            pickle.dumps(w3)
            self.compare(w3, 0, "same_fresh")
            out3 = pickle.loads(pickle.dumps(w3))
            self.stats["roundtrips"] += 2
            self.compare(out3, 1, "same_rt_after_use")
        except Exception as e:  # noqa: BLE001
            self.fail("roundtrip_fails", "same_rt_after_use", "pickling the same wrapper twice works", "%s: %s" % (type(e).__name__, str(e)[:300]))

        # wrapper of a wrapper (independent copy of the object)
        try:
            base2 = subj.build()
            if subj.is_class and self.ex["ww_variant"] == "class_of_class":
                ww = L.wrap(L.wrap(base2, keep_wrapper=self.inner_kw), keep_wrapper=kw)(*subj.ctor[0], **subj.ctor[1])
            elif subj.is_class:
                ww = L.wrap(L.wrap(base2, keep_wrapper=self.inner_kw)(*subj.ctor[0], **subj.ctor[1]), keep_wrapper=kw)
            else:
                ww = L.wrap(L.wrap(base2, keep_wrapper=self.inner_kw), keep_wrapper=kw)
        except Exception as e:  # noqa: BLE001
            self.fail("wrap_raises", "ww_wrap", "wrapping a wrapper returns", "%s: %s" % (type(e).__name__, e))
            return self
        self.chain(ww, ["ww_fresh", "ww_rt1", "ww_rt2"], kw or self.inner_kw)
        return self


def example_for(seed, index, kw, recipe=None):
    rng = G.recipe_rng(seed, index, "params%d" % int(kw))
    if recipe is None:
        recipe = G.Gen(G.recipe_rng(seed, index)).recipe()
    if recipe["stateful"]:
        mode = "interleaved" if rng.random() < 0.65 else "pickle_first"
    else:
        mode = rng.choice(["interleaved", "pickle_first"])
    return {
        "seed": seed,
        "index": index,
        "recipe": recipe,
        "keep_wrapper": kw,
        "inner_keep_wrapper": rng.choice([True, False]),
        "mode": mode,
        "ww_variant": rng.choice(["instance_of_wrapped_class", "class_of_class"]),
    }


def witness_text(ex, f):
    r = ex["recipe"]
    return (
        "%s [stage %s] kind=%s keep_wrapper=%s inner_keep_wrapper=%s mode=%s (seed %s, index %s, recipe %s)\n"
        "object: %s\nexpected: %s\ngot:      %s\nfactory source (exec'd in a namespace named %r, object = make()%s):\n%s"
        % (
            f["clause"],
            f["stage"],
            r["kind"],
            ex["keep_wrapper"],
            ex["inner_keep_wrapper"],
            ex["mode"],
            ex.get("seed"),
            ex.get("index"),
            r["hash"],
            r["desc"],
            f["expected"],
            f["got"],
            G.NS_NAME,
            "; class kinds: W = wrap(make()); W(*a, **k) with (a, k) = %s" % r["ctor_src"] if r["is_class"] else "",
            r["src"],
        )
    )


# --------------------------------------------------------------------------- #
# a chunk of indices (runs in a forked worker or inline)

_L = None


def _chunk(args):
    seed, indices, deadline = args
    global _L
    if _L is None:
        _L = _Loky()
    stats = collections.Counter()
    kinds = collections.Counter()
    nontrivial = set()
    viol = []
    inconc = collections.Counter()
    samples = []
    detail_count = collections.Counter()
    errors = []
    evaluated = 0
    for idx in indices:
        if time.time() > deadline:
            stats["indices_dropped_by_budget"] += 1
            continue
        recipe = G.Gen(G.recipe_rng(seed, idx)).recipe()
        for kw in (True, False):
            ex = example_for(seed, idx, kw, recipe)
            try:
                ev = _Eval(_L, ex).run()
            except Exception as e:  # noqa: BLE001 - harness trouble must not masquerade as held
                inconc["harness_error:%s" % type(e).__name__] += 1
                if len(errors) < 3:
                    errors.append("seed=%s index=%s keep_wrapper=%s: %s: %s" % (seed, idx, kw, type(e).__name__, e))
                continue
            if ev.inconclusive:
                inconc[ev.inconclusive] += 1
                continue
            evaluated += 1
            kinds[recipe["kind"]] += 1
            stats.update(ev.stats)
            nontrivial.update(ev.nontrivial)
            for f in ev.fails:
                sig = {"clause": f["clause"], "kind": recipe["kind"], "stage": f["stage"], "keep_wrapper": kw}
                detail_count[f["clause"], recipe["kind"]] += 1
                if detail_count[f["clause"], recipe["kind"]] <= FULL_DETAIL_PER_CLAUSE:
                    viol.append((sig, witness_text(ex, f), dict(ex, failure=f)))
                else:
                    viol.append((sig, "%s [stage %s] kind=%s keep_wrapper=%s seed=%s index=%s (same mechanism as an earlier witness)" % (f["clause"], f["stage"], recipe["kind"], kw, seed, idx), None))
            if not ev.fails:
                stats["held"] += 1
            else:
                stats["violated_examples"] += 1
            if len(samples) < 3 or (len(samples) < 8 and recipe["kind"] not in [s.get("kind") for s in samples]):
                samples.append(
                    {
                        "kind": recipe["kind"],
                        "recipe_hash": recipe["hash"],
                        "object": recipe["desc"],
                        "source": recipe["src"],
                        "ops": recipe["ops_src"][:600],
                        "ctor": recipe["ctor_src"],
                        "keep_wrapper": kw,
                        "inner_keep_wrapper": ex["inner_keep_wrapper"],
                        "mode": ex["mode"],
                        "plain_pickle_of_bare_object_works": ev.plain_ok,
                        "arrival_per_round_trip": ev.trace,
                        "comparisons": ev.stats["calls_compared"] + ev.stats["attr_reads_compared"] + ev.stats["method_calls_compared"],
                        "outcome": "held" if not ev.fails else "violated: " + ", ".join(sorted({f["clause"] for f in ev.fails})),
                    }
                )
    return {
        "evaluated": evaluated,
        "stats": dict(stats),
        "kinds": dict(kinds),
        "nontrivial": sorted(nontrivial),
        "viol": viol,
        "inconc": dict(inconc),
        "samples": samples,
        "errors": errors,
    }


# --------------------------------------------------------------------------- #
# names owned by the wrapper: recorded, not judged (see ASSUMPTIONS)


def reserved_name_observations(L):
    out = []

    def mk():
        class Box:
            """box doc"""

            def __init__(self):
                self._obj = 5
                self._keep_wrapper = "mine"

        def f(**kw):
            """f doc"""
            return kw

        return Box(), f

    box, f = mk()
    wb, wf = L.wrap(box, keep_wrapper=True), L.wrap(f, keep_wrapper=True)
    for name, bare, w in (("_obj", box, wb), ("_keep_wrapper", box, wb), ("__doc__", f, wf), ("__module__", f, wf)):
        b, g = G.canon(lambda: getattr(bare, name)), G.canon(lambda: getattr(w, name))
        if name == "_obj":
            g = "V:<the wrapped object itself>" if getattr(w, name) is bare else g
        out.append({"read": "obj.%s" % name, "bare": b[:80], "wrapped": g[:80], "same": b == g})
    b, g = G.canon(lambda: f(self=1)), G.canon(lambda: wf(self=1))
    out.append({"call": "f(self=1) with def f(**kw)", "bare": b, "wrapped": g, "same": b == g})
    return out


# --------------------------------------------------------------------------- #
# cross-process leg (parent side = oracle)


def xproc_start(tier, seed, scratch):
    out = os.path.join(scratch, "xproc.json")
    env = common.repo_env({"LOKY_PICKLER": "pickle"})
    code = "import sys; from harness.inproc import wrapper_gen as g; sys.exit(g.xproc_child(sys.argv[1:]))"
    p = subprocess.Popen(
        [common.PY, "-c", code, str(seed), str(XPROC_N[tier]), out],
        env=env,
        cwd=common.VERIF,
        stdout=subprocess.PIPE,
        stderr=subprocess.STDOUT,
        start_new_session=True,
    )
    return p, out


def xproc_finish(p, out, tier, V, replays, cov):
    timed_out = False
    try:
        log, _ = p.communicate(timeout=XPROC_TIMEOUT[tier])
    except subprocess.TimeoutExpired:
        timed_out = True
        try:
            os.killpg(p.pid, signal.SIGKILL)
        except OSError:
            pass
        log, _ = p.communicate()
    try:
        os.killpg(p.pid, signal.SIGKILL)  # stray workers of the child, if any
    except OSError:
        pass
    cov["xproc_child_exit"] = "timeout" if timed_out else p.returncode
    if not os.path.exists(out):
        V.inconc("xproc_child_no_output")
        cov["xproc_child_log_tail"] = (log or b"").decode("utf-8", "replace")[-1500:]
        return 0
    with open(out) as f:
        data = json.load(f)
    cov["xproc_pickler_in_child"] = data.get("pickler")
    if data.get("pickler") != "pickle":
        V.inconc("xproc_pickler_not_plain_pickle")
        return 0
    n_tasks = 0
    tasks_by = collections.Counter()
    for R in data["records"]:
        rec, kw = R["recipe"], R["keep_wrapper"]
        ops = G.Subject(rec).ops
        for t in R["tasks"]:
            fails = []
            if t["task"] in ("arg", "echo"):
                d, r = t["direct"], t["remote"]
                if r[0] != "ok":
                    if r[1] == "TimeoutError":
                        V.inconc("xproc_task_timeout")
                        continue
                    if t.get("control", "ok") != "ok":
                        # premise not met: cloudpickle alone cannot carry the bare object over the same crossing(s)
                        V.inconc("xproc_cloudpickle_cannot_carry_bare_object")
                        cov.setdefault("xproc_premise_failures", []).append({"task": t["task"], "object": rec["desc"][:120], "wrapper": "%s %s" % (r[1], r[2][:160]), "bare_object_by_cloudpickle": t["control"][:240]})
                        continue
                    fails.append(("xproc_transport_fails", "the wrapper crosses the plain-pickle queue (cloudpickle alone carries the bare object over the same crossing)", "%s %s" % (r[1], r[2])))
                else:
                    r = r[1]
                    if t["task"] == "arg" and r.get("pickler") != "pickle":
                        V.inconc("xproc_worker_pickler_not_plain_pickle")
                        continue
                    exp_w = kw
                    if r["wrapped"] != exp_w:
                        fails.append(
                            (
                                "keep_wrapper_true_unwrapped" if exp_w else "keep_wrapper_false_still_wrapped",
                                "arrives %s (%s)" % ("wrapped" if exp_w else "unwrapped", "in the worker" if t["task"] == "arg" else "back in the parent"),
                                "wrapped=%s" % r["wrapped"],
                            )
                        )
                    if r["callable"] != d["callable"]:
                        fails.append(("callable_iff", "callable(obj)=%s" % d["callable"], "callable(arrived)=%s" % r["callable"]))
                    for op, e, g in zip(ops, d["out"], r["out"]):
                        if op[0] == "call" and r["callable"] != d["callable"]:
                            continue
                        if e != g:
                            fails.append(({"call": "call_result", "attr": "attr_read", "meth": "method_call"}[op[0]], "%s gives %s" % (G.op_text(op), e[:200]), g[:200]))
                            break
            elif t["task"] == "construct":
                fails.append(("ctor_exception", "Cls(*a, **k) returns an instance", "W(*a, **k) raises %s %s" % (t["remote"], t.get("detail", ""))))
            else:  # wrapper submitted as the task function
                if t["remote"] == "E:TimeoutError" and t["direct"] != "E:TimeoutError":
                    V.inconc("xproc_task_timeout")
                    continue
                if t["direct"] != t["remote"]:
                    fails.append(("call_result", "executor.submit(wrapper, ...) for %s gives %s" % (t["op"], t["direct"][:200]), "%s %s" % (t["remote"][:200], t.get("detail", ""))))
            n_tasks += 1
            tasks_by[t["task"]] += 1
            if not fails:
                V.ok()
                continue
            clause, expd, got = fails[0]
            sig = {"clause": clause, "kind": rec["kind"], "stage": "xproc_" + t["task"], "keep_wrapper": kw}
            ex = {"recipe": rec, "keep_wrapper": kw, "xproc_task": t}
            text = witness_text(dict(ex, inner_keep_wrapper="-", mode="xproc"), {"clause": clause, "stage": sig["stage"], "expected": expd, "got": got})
            V.violation(sig, text, replays.path_for(sig, ex))
    cov["xproc_tasks"] = n_tasks
    cov["xproc_tasks_by_type"] = dict(tasks_by)
    cov["xproc_objects"] = len(data["records"])
    return n_tasks


class _Replays:
    def __init__(self):
        self.by_sig = {}

    def path_for(self, sig, example, known=False):
        key = (sig["clause"], sig["kind"], sig["stage"], sig["keep_wrapper"])
        lst = self.by_sig.setdefault(key, [])
        if example is None or len(lst) >= (1 if known else MAX_REPLAYS_PER_SIG):
            return lst[0] if lst else None
        r = example["recipe"]
        name = "%s-%s-%s-kw%d-%s" % (sig["clause"], sig["kind"], sig["stage"], int(bool(sig["keep_wrapper"])), r["hash"])
        p = common.save_replay(PROP, name, files={"example.json": example})
        lst.append(p)
        return p


# --------------------------------------------------------------------------- #


def main(tier):
    t0 = time.time()
    seed = common.seed()
    V = common.Verdicts(PROP)
    L = _Loky()
    global _L
    _L = L
    scratch = common.scratch_root()
    replays = _Replays()
    cov = {}

    xp, xout = xproc_start(tier, seed, scratch)

    n = N_RECIPES[tier]
    deadline = t0 + common.budget(BUDGET[tier])
    nproc = max(1, min(8, common.NCPU - 1))
    nchunks = nproc * 6
    chunks = [(seed, list(range(i, n, nchunks)), deadline) for i in range(nchunks)]
    results = None
    if nproc > 1:
        try:
            ctx = multiprocessing.get_context("fork")
            with ctx.Pool(nproc) as pool:
                results = pool.map(_chunk, chunks, chunksize=1)
        except Exception as e:  # noqa: BLE001 - fall back to inline evaluation
            cov["parallel_fallback"] = repr(e)
            results = None
    if results is None:
        results = [_chunk(c) for c in chunks]

    stats = collections.Counter()
    kinds = collections.Counter()
    nontrivial = set()
    samples = []
    evaluated = 0
    for res in results:
        evaluated += res["evaluated"]
        stats.update(res["stats"])
        kinds.update(res["kinds"])
        nontrivial.update(tuple(x) for x in res["nontrivial"])
        for k, c in res["inconc"].items():
            for _ in range(c):
                V.inconc(k)
        for s in res["samples"]:
            if len(samples) < 6 and s.get("kind") not in [x.get("kind") for x in samples]:
                samples.append(s)
        for sig, text, ex in res["viol"]:
            V.violation(sig, text, replays.path_for(sig, ex, known=V.match_known(sig) is not None))
        for e in res["errors"]:
            print("harness error (example counted inconclusive): %s" % e)
    V.ok(stats.get("held", 0))

    cov["reserved_name_observations"] = reserved_name_observations(L)
    n_x = xproc_finish(xp, xout, tier, V, replays, cov)

    by_depth = collections.Counter((k, kw, i) for (k, kw, i, _p, _h) in nontrivial)
    cov.update(
        {
            "evaluations": evaluated,
            "distinct_nontrivial": len(nontrivial),
            "rule": RULE,
            "samples": samples,
            "recipes_requested": n,
            "per_kind_evaluations": dict(sorted(kinds.items())),
            "calls_compared": stats.get("calls_compared", 0),
            "attr_reads_compared": stats.get("attr_reads_compared", 0),
            "method_calls_compared": stats.get("method_calls_compared", 0),
            "callable_compared": stats.get("callable_compared", 0),
            "comparisons_where_obj_raises": stats.get("comparisons_where_obj_raises", 0),
            "constructor_exceptions_compared": stats.get("ctor_raise_compared", 0),
            "pickle_round_trips": stats.get("roundtrips", 0),
            "wrapper_pickles_by_outer_protocol": {k.split(":", 1)[1]: v for k, v in sorted(stats.items()) if k.startswith("outer_protocol:")},
            "slotted_instances_evaluated": stats.get("slotted_instance", 0),
            "bare_object_plain_unpicklable": stats.get("plain_unpicklable", 0),
            "bare_object_plain_picklable": stats.get("plain_picklable", 0),
            "nontrivial_by_round_trip_depth": {str(d): sum(c for (k, kw, i), c in by_depth.items() if i == d) for d in (1, 2, 3)},
            "indices_dropped_by_budget": stats.get("indices_dropped_by_budget", 0),
            "violated_examples": stats.get("violated_examples", 0),
            "workers": nproc,
        }
    )
    wall = time.time() - t0
    common.write_evidence(PROP, tier, "exploration", cov, wall, violations=len(V.violations), assumptions=ASSUMPTIONS)
    diff = [o for o in cov["reserved_name_observations"] if not o["same"]]
    if diff:
        print(
            "note property=%s names owned by the wrapper are outside the quantifier and not judged; on this tree they differ for: %s"
            % (PROP, ", ".join(o.get("read") or o.get("call") for o in diff))
        )
    print(
        "C16: %d evaluations (%d distinct non-trivial), %d calls / %d attribute reads / %d method calls compared, %d round trips, %d cross-process tasks, %.1fs"
        % (evaluated, len(nontrivial), cov["calls_compared"], cov["attr_reads_compared"], cov["method_calls_compared"], cov["pickle_round_trips"], n_x, wall)
    )
    try:
        import shutil

        shutil.rmtree(scratch, ignore_errors=True)
    except Exception:  # noqa: BLE001
        pass
    floor_ok = evaluated >= FLOOR and n_x > 0
    floor_text = "only %d examples evaluated in-process (floor %d) and %d cross-process tasks (floor 1)" % (evaluated, FLOOR, n_x)
    return V.finish(floor_ok, floor_text)


def replay(path, runs=1):
    """Re-evaluate a saved example.json against the current VERIF_REPO tree."""
    fn = os.path.join(path, "example.json") if os.path.isdir(path) else path
    with open(fn) as f:
        ex = json.load(f)
    if "xproc_task" in ex:
        print("cross-process example; recipe:\n%s\nrecorded task: %s" % (ex["recipe"]["src"], json.dumps(ex["xproc_task"])[:1500]))
        ex = example_for(0, 0, ex["keep_wrapper"], ex["recipe"])
    L = _Loky()
    bad = 0
    for _ in range(max(1, runs)):
        ev = _Eval(L, ex).run()
        for f_ in ev.fails:
            bad += 1
            print("VIOLATION property=%s replay=%s\n  %s" % (PROP, path, witness_text(ex, f_).replace("\n", "\n  ")))
    if not bad:
        print("HELD property=%s on replay of %s" % (PROP, path))
    return 1 if bad else 0


if __name__ == "__main__":
    sys.exit(main(sys.argv[1] if len(sys.argv) > 1 else "quick"))
