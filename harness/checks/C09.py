"""C09 - get_reusable_executor always returns a live, correctly configured singleton."""
from .. import explore
from ..gen import programs
from ..oracles import clauses, props
from ..treecheck import TreeCheck

QUALS = ["_ReusablePoolExecutor.get_reusable_executor", "get_reusable_executor", "_ReusablePoolExecutor._resize", "_ReusablePoolExecutor._wait_job_completion",
         "ProcessPoolExecutor.shutdown", "_get_next_executor_id", "_ReusablePoolExecutor.__init__", "ProcessPoolExecutor.__init__",
         "_ExecutorManagerThread.join_executor_internals", "_ExecutorManagerThread.shutdown_workers", "_ReusablePoolExecutor.submit", "ProcessPoolExecutor.submit"]


class C09(TreeCheck):
    prop = "C09"
    rule_text = (
        "single-threaded programs from g_factory (3-12 factory calls over max_workers, timeout, reuse in {True,False,'auto'}, kill_workers, "
        "initializer, env, context in {loky, loky_init_main, spawn}; interleaved with a task that kills its worker, shutdown(wait=True/False), pauses "
        "and submissions) checked against a 20-line reference model of the factory (identity, id monotonicity, constructor arguments seen by a probe "
        "task, complete shutdown of a replaced instance); multi-threaded programs from g_factory_mt (2-6 racing callers varying only max_workers). "
        "Profile run, delays (D) in the factory/_resize/shutdown, pairs of delays in two different threads (DD), jitter (Z). Non-trivial = at least two factory calls returned; distinct = (shape, "
        "mode, injection function, sequence of same/new decisions)."
    )
    assumptions = ["health of the previous instance is sampled by the driver right before the call; calls with a worker death within 1 s before the call are exempt from the identity clause",
                   "racing callers vary only max_workers (the statement's wording), so no caller's executor is legitimately shut down under it"]

    def bases(self, tier, rng):
        n = 14 if tier == "quick" else 100
        out = []
        for i in range(n):
            prog, meta = (programs.g_factory_from_callback(rng) if i % 9 == 4 else programs.g_factory_mt(rng) if i % 3 == 2 else programs.g_factory_break_race(rng) if i % 7 == 1 else programs.g_factory(rng))
            out.append({"program": prog, "config": {}, "meta": meta})
        return out

    def derive(self, base, F, rng, tier):
        quick = tier == "quick"
        out = explore.derive_D(F, base, rng, 12 if quick else 36, quals=QUALS)
        out += explore.derive_DD(F, base, rng, 3 if quick else 8, quals=QUALS)
        out += explore.derive_Z(rng, 3 if quick else 8)
        return out

    def oracle(self, case, F):
        return clauses.c01_progress(case, F) + props.c09(case, F)

    def nontrivial(self, case, F):
        ops = sorted((o for o in F.ops.values() if o["call"] and o["call"]["op"] == "get_reusable" and o["end"] is not None and o["end"]["k"] == "ret"), key=lambda o: o["call"]["t"])
        if len(ops) < 2:
            return None
        m = case["meta"]
        seq = "".join("s" if o["end"]["r"]["same"] else "n" for o in ops)
        return (m.get("gen"), m.get("threads"), m.get("mode"), m.get("fn"), seq[:12])


def main(tier):
    return C09().run(tier)
