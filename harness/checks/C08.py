"""C08 - parallelism never exceeds max_workers and is actually delivered."""
from .. import explore
from ..gen import programs
from ..oracles import clauses, props
from ..treecheck import TreeCheck

PROBE_QUALS = ["ProcessPoolExecutor._adjust_process_count", "_ExecutorManagerThread.process_result_item", "_ReusablePoolExecutor._resize",
               "ProcessPoolExecutor._ensure_executor_running", "ProcessPoolExecutor.submit"]
D_QUALS = PROBE_QUALS + ["_ExecutorManagerThread.add_call_item_to_queue", "_ExecutorManagerThread.wait_result_broken_or_wakeup", "_ReusablePoolExecutor._wait_job_completion"]


class C08(TreeCheck):
    prop = "C08"
    jobs = 6  # keep the machine quiet enough for the rendezvous (8 workers x 6 cases)
    rule_text = (
        "programs from g_par (max_workers 1-8; submits, pauses around the idle timeout, resizes up/down; after every step a saturating batch of "
        "max_workers rendezvous tasks that return only when max_workers of them are checked in simultaneously; family grow_while_respawning: a reusable executor whose workers idle out between slowly pickled jobs is grown while those jobs are in flight) with read-only probes of "
        "len(_processes) at every statement of _adjust_process_count / process_result_item / _resize / submit (under the locks the code holds there); "
        "profile run, delays (D) on spawn/respawn/resize paths, worker-side delays (WD) and jitter (Z). Non-trivial = a rendezvous batch was "
        "observed; distinct = (shape, mode, injection function, number of batches, peak overlap)."
    )
    assumptions = ["overlap is computed from records written inside task bodies, so logged overlap implies real overlap",
                   "delivery is a bounded-progress wait (20 s on an otherwise idle executor), case parallelism reduced to 6",
                   "the bound at time t is the largest max_workers among calls in flight at t and the last completed one"]

    def bases(self, tier, rng):
        n = 10 if tier == "quick" else 70
        return [dict(zip(("program", "meta"), programs.g_par(rng, family="grow_while_respawning" if i % 5 == 3 else None)), config={}) for i in range(n)]

    def derive(self, base, F, rng, tier):
        quick = tier == "quick"
        probes = []
        for pt in explore.points_of(F, role="driver", quals=PROBE_QUALS):
            probes.append(explore.rule(pt, ["probe", "nproc"], hit=0))
        out = [({"rules": list(probes)}, {"mode": "I"})]
        for plan, meta in explore.derive_D(F, base, rng, 8 if quick else 24, quals=D_QUALS):
            out.append(({"rules": probes + plan["rules"]}, meta))
        for plan, meta in explore.derive_WD(F, base, rng, 3 if quick else 8, quals=["_process_worker", "Queue.get"]):
            out.append(({"rules": probes + plan["rules"]}, meta))
        for plan, meta in explore.derive_Z(rng, 2 if quick else 5):
            out.append(({"seed": plan["seed"], "rules": probes + plan["rules"]}, meta))
        return out

    def oracle(self, case, F):
        return clauses.c01_progress(case, F) + props.c08(case, F)

    def nontrivial(self, case, F):
        rv = [f for f in F.futs.values() if f["submit"] and f["submit"]["spec"].get("k") == "rendezvous" and f["done"] is not None]
        if not rv:
            return None
        self._inv = getattr(self, "_inv", 0) + len([i for i in F.invs if i.get("name") == "nproc"])
        peak = max([f["done"]["value"][3] for f in rv if f["done"]["state"] == "result"] or [0])
        m = case["meta"]
        return (m.get("kind"), m.get("family"), m.get("kw", {}).get("max_workers"), m.get("kw", {}).get("timeout"), m.get("mode"), m.get("fn"), len(rv), peak)

    def extra_coverage(self):
        return {"nproc_invariant_evaluations": getattr(self, "_inv", 0)}

    def budget(self, tier):
        return 240 if tier == "quick" else 2400


def main(tier):
    return C08().run(tier)
