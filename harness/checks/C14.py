"""C14 - synchronisation primitives keep their contracts (histories + oracles).

Every case is one subprocess of harness.inproc.sync_stress.driver_main running
under the sys.monitoring injector (jitter and/or point delays on the statements
of Condition.* / Event.* / SemLock.__enter__/__exit__, in the driver and in its
LokyProcess children).  The recorded histories are judged here by the pure
oracles of the same module.
"""
import json
import os
import random
import shutil
import signal
import subprocess
import sys
import time

from .. import common
from ..inproc import sync_stress as eng

PROP = "C14"
STARVATION_GAP = 1.0  # s: a coordinator that itself was not scheduled for this long does not trust an expired bound


def make_cases(tier, seed, points):
    rng = random.Random(seed * 7919 + (1 if tier == "quick" else 2))
    if tier == "quick":
        ncases = 24
        sizes = {"lock_n": 300, "lock_dur": 0.8, "sem_n_ops": 200, "burst_n": 400, "burst_dur": 0.5, "cond_reps": 2, "ev_n": 30}
    else:
        ncases = 150
        sizes = {"lock_n": 1200, "lock_dur": 2.0, "sem_n_ops": 600, "burst_n": 2500, "burst_dur": 2.0, "cond_reps": 4, "ev_n": 60}
    shapes = [
        ("loky", 3, 0, 0), ("loky", 0, 3, 1), ("loky", 2, 2, 2), ("loky", 6, 0, 0), ("loky_init_main", 0, 2, 2), ("loky", 6, 2, 2),
        ("loky", 2, 0, 0), ("loky", 0, 4, 1), ("loky", 1, 3, 1), ("loky_init_main", 3, 1, 2), ("loky", 4, 0, 0), ("loky", 0, 4, 2),
        ("loky", 4, 4, 1), ("loky", 1, 1, 1), ("loky", 5, 0, 0), ("loky", 3, 3, 2),
    ]
    kinds = ["point", "point", "jitter-hi", "point", "jitter-lo", "point", "none", "point"]
    pts = list(points)
    rng.shuffle(pts)
    off = rng.randrange(len(shapes))
    koff = rng.randrange(len(kinds))
    cases = []
    pi = 0
    for i in range(ncases):
        ctx, T, P, tpc = shapes[(i + off) % len(shapes)]
        kind = kinds[(i + koff) % len(kinds)]
        rules = []
        if kind == "jitter-hi":
            rules.append({"role": "*", "action": ["jitter", 0.25, 0.002]})
            rid = "jitter:0.25:2ms"
        elif kind == "jitter-lo":
            rules.append({"role": "*", "action": ["jitter", 0.1, 0.0005]})
            rid = "jitter:0.1:0.5ms"
        elif kind == "point":
            rules.append({"role": "*", "action": ["jitter", 0.05, 0.0005]})
            names = []
            for _ in range(4):
                q, rel = pts[pi % len(pts)]
                pi += 1
                d = rng.choice([0.0005, 0.002, 0.004])
                rules.append({"role": "*", "proc": "*", "thread": "*", "file": eng.SYNC_FILE, "qual": q, "rel": rel, "hit": 0, "action": ["sleep", d]})
                names.append("%s+%d@%g" % (q, rel, d))
            rid = "pt:" + ",".join(names)
        else:
            rid = "none"
        cs = seed * 100003 + i * 17 + (0 if tier == "quick" else 50000)
        cases.append({
            "name": "c%03d" % i,
            "rule_id": rid,
            "spec": {"seed": cs, "ctx": ctx, "T": T, "P": P, "tpc": tpc, "sem_n": rng.choice([1, 2, 3]), "sizes": sizes},
            "plan": {"seed": cs, "log_env": False, "rules": rules},
        })
    return cases


def launch(case, root):
    d = os.path.join(root, case["name"])
    os.makedirs(d)
    with open(os.path.join(d, "spec.json"), "w") as f:
        json.dump(case["spec"], f)
    with open(os.path.join(d, "plan.json"), "w") as f:
        json.dump(case["plan"], f)
    env = dict(os.environ)
    env["PYTHONPATH"] = os.pathsep.join([common.SITE, common.REPO, common.VERIF])
    env["LOKY_VERIF"] = "1"
    env["LOKY_VERIF_DIR"] = d
    env["LOKY_VERIF_REPO"] = common.REPO
    env["PYTHONHASHSEED"] = "0"
    env.pop("LOKY_VERIF_DRIVER", None)
    code = "import sys; from harness.inproc import sync_stress as s; sys.exit(s.driver_main(%r))" % d
    out = open(os.path.join(d, "driver.out"), "ab")
    p = subprocess.Popen([common.PY, "-c", code], cwd=d, env=env, stdout=out, stderr=subprocess.STDOUT, start_new_session=True)
    out.close()
    return d, p


def kill_group(p, d):
    try:
        os.killpg(p.pid, signal.SIGKILL)
    except OSError:
        pass
    try:
        p.wait(5)
    except Exception:
        pass
    # the trackers were killed too: unlink what this case's processes created
    try:
        pids = {fn.split(".")[1] for fn in os.listdir(d) if fn.startswith("events.")}
        for fn in os.listdir("/dev/shm"):
            if fn.startswith("sem.loky-") and fn.split("-")[1] in pids:
                try:
                    os.unlink(os.path.join("/dev/shm", fn))
                except OSError:
                    pass
    except OSError:
        pass


def delays_fired(d):
    n = 0
    try:
        with open(os.path.join(d, "plan.json")) as f:
            plan = json.load(f)
    except (OSError, ValueError):
        return 0
    jit = {str(i) for i, r in enumerate(plan.get("rules", [])) if r.get("file") is None}
    for fn in os.listdir(d):
        if not fn.startswith("events."):
            continue
        try:
            with open(os.path.join(d, fn)) as f:
                for ln in f:
                    if '"fault"' in ln and '"sleep"' in ln:
                        n += 1
                    elif '"proc_atexit"' in ln:
                        try:
                            rh = json.loads(ln).get("rule_hits", {})
                        except ValueError:
                            continue
                        n += sum(v for k, v in rh.items() if k in jit)
        except OSError:
            pass
    return n


def norm_history(res, limit=40):
    H = res["H"]
    t0 = H.get("t0", 0.0)
    out = {"primitive": H["prim"], "kind": H["kind"], "scope": res["scope"], "params": {k: H[k] for k in ("W", "k", "mode", "ts", "sep", "init", "n", "style") if k in H}, "ops": []}
    for r in res["recs"][:limit]:
        o = {"actor": r["a"], "op": r["o"]}
        for k, nk in (("c", "call_t"), ("r", "ret_t"), ("ta", "held_from"), ("tb", "held_to"), ("l", "lock_taken_t")):
            if k in r:
                o[nk] = round(r[k] - t0, 6)
        for k in ("t", "v", "mode", "k", "tag", "args", "mine", "drain", "d"):
            if k in r:
                o[k] = r[k]
        if "x" in r:
            o["raised"] = r["x"]["t"]
        out["ops"].append(o)
    return out


def main(tier):
    t0 = time.monotonic()
    seed = common.seed()
    V = common.Verdicts(PROP)
    points = eng.injection_points(common.REPO)
    cases = make_cases(tier, seed, points)
    par = 5 if tier == "quick" else 6
    budget = common.budget(62 if tier == "quick" else 780)
    case_timeout = 75 if tier == "quick" else 240
    root = common.scratch_root()
    pending = list(cases)
    running = []
    finished = []
    skipped = 0
    while pending or running:
        while pending and len(running) < par:
            if time.monotonic() - t0 > budget:
                skipped += len(pending)
                pending = []
                break
            c = pending.pop(0)
            d, p = launch(c, root)
            running.append((c, d, p, time.monotonic()))
        for item in list(running):
            c, d, p, ts = item
            rc = p.poll()
            if rc is None and time.monotonic() - ts > case_timeout:
                kill_group(p, d)
                rc = "timeout"
            if rc is not None:
                running.remove(item)
                finished.append((c, d, rc))
        time.sleep(0.05)

    tot = {"operations_recorded": 0, "waits_true": 0, "waits_false": 0, "notifies": 0, "injected_delays_fired": 0, "event_histories_linearized": 0,
           "checker_timeouts": 0, "histories_with_contention": 0}
    per_prim = {}
    per_scope = {}
    distinct = set()
    samples = []
    sample_kinds = set()
    evaluations = 0
    cases_bad = 0
    seen_sig = {}
    rules_used = set()
    for c, d, rc in finished:
        spec = c["spec"]
        rules_used.add(c["rule_id"])
        tot["injected_delays_fired"] += delays_fired(d)
        try:
            results = eng.evaluate_case(d)
        except Exception as e:  # pragma: no cover - harness trouble
            V.inconc("evaluate_failed")
            print("evaluate_case failed for %s: %r" % (d, e), file=sys.stderr)
            cases_bad += 1
            continue
        normal = rc == 0 and os.path.exists(os.path.join(d, "driver_done"))
        if not normal and rc != 3:
            cases_bad += 1
            V.inconc("case_timeout" if rc == "timeout" else "driver_exit_%s" % rc)
            try:
                with open(os.path.join(d, "driver.out"), "rb") as f:
                    tail = f.read()[-1500:].decode(errors="replace")
                print("case %s ended abnormally (rc=%s):\n%s" % (c["name"], rc, tail), file=sys.stderr)
            except OSError:
                pass
        for res in results:
            H = res["H"]
            if H["prim"] == "harness":
                V.inconc("harness_" + (res["issues"][0]["clause"] if res["issues"] else "start"))
                continue
            evaluations += 1
            st = res["stats"]
            per_prim[H["prim"]] = per_prim.get(H["prim"], 0) + 1
            per_scope[res["scope"]] = per_scope.get(res["scope"], 0) + 1
            tot["operations_recorded"] += st.get("ops", 0)
            for k in ("waits_true", "waits_false", "notifies"):
                tot[k] += st.get(k, 0)
            tot["event_histories_linearized"] += st.get("linearized", 0)
            tot["checker_timeouts"] += st.get("checker_timeout", 0)
            W = H.get("W") or len(H.get("waiters") or H.get("actors") or res["actors"])
            if st.get("contended") and len(res["actors"]) >= 2:
                tot["histories_with_contention"] += 1
                distinct.add(json.dumps([H["prim"], spec["T"], spec["P"], W, res["tclass"], c["rule_id"], H["kind"], list(st.get("sig", ()))], default=repr))
            for r in res["inconc"]:
                V.inconc(r)
            if (H["prim"], H["kind"]) not in sample_kinds and len(samples) < 5 and st.get("contended") and 3 <= len(res["recs"]) <= 16 and H["kind"] in ("notify_k", "mixed_all", "ev_mixed", "ev_waiters", "rlock_proto"):
                sample_kinds.add((H["prim"], H["kind"]))
                samples.append(norm_history(res))
            issues = res["issues"]
            if not issues:
                if not res["inconc"]:
                    V.ok()
                continue
            for iss in issues:
                if iss.get("harness"):
                    V.inconc("oracle_error")
                    print("oracle error: " + iss["text"], file=sys.stderr)
                    continue
                if iss.get("liveness") and iss.get("max_poll_gap", 0) > STARVATION_GAP:
                    V.inconc("liveness_bound_expired_under_load")
                    continue
                sig = {"clause": iss["clause"], "primitive": H["prim"], "scope": res["scope"]}
                key = json.dumps(sig, sort_keys=True)
                if key in seen_sig:
                    seen_sig[key][0] += 1
                    continue
                name = "s%d-%s-%s-h%d-%s" % (seed, tier, c["name"], H["h"], iss["clause"])
                hist = {"signature": sig, "issue": {k: v for k, v in iss.items() if k != "stacks"}, "stacks": iss.get("stacks"), "case": {"rule_id": c["rule_id"], "spec": spec, "plan": c["plan"]},
                        "history": H, "records": res["recs"][:3000], "readable": norm_history(res, 60),
                        "rerun": "mkdir D; put spec.json and plan.json into D; cd D; PYTHONPATH=%s:%s:%s LOKY_VERIF=1 LOKY_VERIF_DIR=$PWD LOKY_VERIF_REPO=%s %s -c \"from harness.inproc import sync_stress as s; s.driver_main('$PWD')\""
                        % (common.SITE, common.REPO, common.VERIF, common.REPO, common.PY)}
                rp = common.save_replay(PROP, name, files={"history.json": hist, "spec.json": spec, "plan.json": c["plan"]})
                text = "%s [%s, %s; T=%d P=%d x%d threads, ctx=%s, injection=%s] history #%d (%s)\n%s" % (
                    iss["clause"], H["prim"], res["scope"], spec["T"], spec["P"], spec["tpc"], spec["ctx"], c["rule_id"], H["h"], H["kind"], iss["text"])
                if iss.get("stacks"):
                    text += "\nstacks: see history.json (%s)" % ", ".join(sorted(iss["stacks"]))
                kind = V.violation(sig, text, rp)
                seen_sig[key] = [1, kind]
    for key, (n, kind) in sorted(seen_sig.items()):
        if n > 1:
            print("  (%d histories in all with signature %s)" % (n, key))
    if not os.environ.get("VERIF_KEEP"):
        shutil.rmtree(root, ignore_errors=True)
    else:
        print("scratch kept: " + root, file=sys.stderr)

    wall = time.monotonic() - t0
    cov = {
        "evaluations": evaluations,
        "distinct_nontrivial": len(distinct),
        "rule": "Each case = one stress driver subprocess (T threads in the driver + P LokyProcess children x threads, pickled copies of one Lock, RLock, "
        "Semaphore(n), BoundedSemaphore(n), Condition(), Condition(Lock()) and two Events) playing a seeded program of histories: lock/semaphore stress loops, "
        "RLock and over-release protocols, phase-structured Condition rounds (A: W waiters log 'about to wait' under the lock; B: k x notify / notify_all by an "
        "actor that takes the lock only after the W records were seen; C: draining notify_all), bursts of tiny-timeout waits against several notifiers followed "
        "by clean 'usable' rounds and counter snapshots at quiescence, and Event histories of <= 14 operations by <= 4 actors. Schedules come from the injector: "
        "per case either none, jitter on every statement of loky's code, or 4 point delays on statements of Condition.*/Event.*/SemLock.__enter__/__exit__ "
        "(relative lines computed from the compiled source of the tree under test). A history is NON-TRIVIAL (contended) when at least two actors took part and: "
        "lock/semaphore - some acquire was called strictly inside the logged hold interval of another actor; RLock/over-release protocol - two actors alternated on the "
        "object; Condition round - another actor was inside wait() at the instant the notifier had taken the lock; burst - same, for at least one notify; Event - two "
        "operations of different actors have overlapping call intervals. DISTINCT = different (primitive, T, P, W or number of actors, timeout class, injection rule id, "
        "history kind, outcome signature) tuples among those; repeats of a tuple are counted once.",
        "samples": samples,
        "cases": len(finished),
        "cases_abnormal": cases_bad,
        "cases_skipped_for_budget": skipped,
        "histories_by_primitive": per_prim,
        "histories_by_scope": per_scope,
        "injection_rules_used": len(rules_used),
        "injection_points_available": len(points),
    }
    cov.update(tot)
    floor_n = 300 if tier == "quick" else 3000
    floor_ok = evaluations >= floor_n and cases_bad * 10 <= max(1, len(finished)) and tot["event_histories_linearized"] >= floor_n // 6 and len(distinct) >= floor_n // 3
    common.write_evidence(
        PROP, tier, "exploration", cov, wall, len(V.violations),
        [
            "CLOCK_MONOTONIC is one clock for all processes; hold timestamps are taken after acquire returned and before release is called, call/return timestamps outside the call: overlap and order are used in the sound direction only",
            "delays are injected at statement boundaries of loky's Python code (each statement of Condition.*/Event.* is one semaphore operation); interleavings inside _multiprocessing.SemLock's C code are left to the OS scheduler",
            "a bounded-progress wait of 10 s expiring with every other actor idle counts as a lost wake-up/deadlock (stacks attached), unless the coordinator's own 0.4 ms polling loop was itself descheduled for more than %g s during that wait (then: inconclusive)" % STARVATION_GAP,
            "'notify does wake one' is demanded only in rounds where no waiter has a finite timeout (the statement's qualifier); with finite timeouts only the upper bound, the timing of False and lock ownership are checked",
            "Event.wait(t) returning False before t elapsed is accepted when a clear() overlaps the call (set(), then clear() racing with the woken waiter: the event is indeed clear when it returns)",
            "sem_timedwait uses the wall clock: a wall-clock step during a run could make a timed wait return early (1 ms slack allowed)",
            "Lock.release() by a thread that does not hold it is not part of the statement and is not exercised",
        ],
    )
    return V.finish(floor_ok, "only %d histories evaluated (%d distinct contended, %d event histories linearized), %d of %d cases abnormal, %d skipped for budget"
                    % (evaluations, len(distinct), tot["event_histories_linearized"], cases_bad, len(finished), skipped))
