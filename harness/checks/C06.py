"""C06 - forced shutdown is prompt, total and explicit."""
from .. import explore
from ..gen import programs
from ..oracles import clauses, props
from ..treecheck import TreeCheck

QUALS = ["ProcessPoolExecutor.shutdown", "_ExecutorManagerThread.flag_executor_shutting_down", "_ExecutorManagerThread.kill_workers", "kill_process_tree",
         "_kill_process_tree_with_psutil", "_kill_process_tree_without_psutil", "_posix_recursive_kill", "_kill", "_ExecutorManagerThread.run",
         "_ExecutorManagerThread.is_shutting_down", "_ExecutorManagerThread.join_executor_internals", "_ExecutorManagerThread.shutdown_workers",
         "_ReusablePoolExecutor.get_reusable_executor", "_ExecutorFlags.flag_as_shutting_down", "_ExecutorManagerThread.add_call_item_to_queue",
         "_ExecutorManagerThread.process_result_item", "_ExecutorManagerThread.wait_result_broken_or_wakeup"]


class C06(TreeCheck):
    prop = "C06"
    rule_text = (
        "programs from g_kill: pool states {queued only, dispatched, running, finished results, cancelled} reached by a pause of 0-1.5 s before the "
        "call; tasks that sleep 120 s ('endless'), nested executors (depth 0-2) whose sub-tasks are endless or spawn plain subprocesses; family churn: every worker owns a long-lived helper plus a stream of short-lived subprocesses that vanish while the kill sweep walks the tree; "
        "shutdown(kill_workers=True) directly or through get_reusable_executor(kill_workers=True); from the submitting thread or a second one; "
        "psutil visible or hidden (pgrep path). Profile run, then a delay (D) at a statement of the kill path, and jitter (Z). Non-trivial = the "
        "forced call returned while at least one endless task had started; distinct = (shape, depth, via, psutil, mode, injection function, future outcome classes)."
    )
    assumptions = ["endless tasks sleep 120 s, which no case lasts: 'returned with no task_end of an endless task' is load-independent promptness",
                   "descendants that leave the process tree on purpose (double-fork daemons) are not generated",
                   "descendants are reaped by the namespace's init, not by loky: for them 'killed' (not running) is demanded, for direct workers 'reaped'"]

    def bases(self, tier, rng):
        n = 12 if tier == "quick" else 80
        out = []
        for i in range(n):
            fam = {0: "branching", 1: "branching", 2: "already_shutting_down", 3: "already_shutting_down_factory", 4: "churn", 5: "churn", 6: "idle_with_descendants", 7: "idle_with_descendants", 8: "graceful_after_forced"}.get(i % 12)
            prog, meta = programs.g_kill(rng, family=fam)
            hide = (rng.random() < 0.35 if i % 12 not in (0, 1) else True) if fam not in ("churn", "idle_with_descendants") else (i % 12 in (5, 7) and rng.random() < 0.5)
            meta["hide_psutil"] = hide
            out.append({"program": prog, "config": {"hide_psutil": hide}, "meta": meta})
        return out

    def derive(self, base, F, rng, tier):
        quick = tier == "quick"
        out = explore.derive_D(F, base, rng, 10 if quick else 30, quals=QUALS, delay=rng.choice([0.05, 0.3]))
        if base["meta"].get("family") == "graceful_after_forced":
            # the manager thread is held where it is about to read the kill request, while the other thread's graceful request arrives
            for pt in explore.points_of(F, role="driver", thr="mgr", quals=["_ExecutorManagerThread.flag_executor_shutting_down", "_ExecutorManagerThread.is_shutting_down"])[:4]:
                out.append(({"rules": [explore.rule(pt, ["sleep", 0.15], hit=0)]}, {"mode": "DS", "fn": pt["qual"], "at": "kill_request_read"}))
        out += explore.derive_Z(rng, 2 if quick else 6)
        return out

    def oracle(self, case, F):
        return clauses.c01_progress(case, F) + props.c06(case, F)

    def nontrivial(self, case, F):
        forced = [o for o in F.ops.values() if o["call"] and o["call"]["a"].get("forced") and o["end"] is not None]
        started = [s for t in F.tasks.values() for s in t["starts"] if s.get("kind") in ("endless", "nested", "spawn_subprocess", "churn_subprocess")] or ([1] if case["meta"].get("family") == "idle_with_descendants" else [])
        if not forced or not started:
            return None
        m = case["meta"]
        oc = tuple(sorted({(f["done"]["state"] + ":" + (f["done"].get("exc") or {}).get("type", "")) if f["done"] else "pending" for f in F.futs.values()}))
        return (m.get("kind"), m.get("depth"), m.get("family"), m.get("via"), m.get("hide_psutil"), m.get("mode"), m.get("fn"), oc)

    def budget(self, tier):
        return 200 if tier == "quick" else 2400


def main(tier):
    return C06().run(tier)
