"""C20 - executor lifecycles leak no parent-side resources."""
from .. import explore
from ..gen import programs
from ..oracles import clauses, props
from ..treecheck import TreeCheck


class C20(TreeCheck):
    prop = "C20"
    profile = False
    rule_text = (
        "programs from g_life: 1-3 lifecycles (plain / reusable / nested x clean shutdown waited, non-waited then joined, context manager, del / killed / never submitted to (ended by shutdown, with, del or replacement) / broken and dropped without shutdown() / "
        "broken by a crash and shut down / timed-out workers / resized) run once (warm-up: tracker processes start here), census, then N in {2,5,20} more "
        "times, census; the four censuses (descriptors by kind, threads by name, children incl. zombies by class, /dev/shm entries) must be exactly equal. "
        "Plus jitter (Z) variants. Non-trivial = both censuses were taken; distinct = (lifecycle names, N, mode)."
    )
    assumptions = ["equality, not a trend estimate: any growth per cycle is a leak, a constant offset created in the warm-up is not",
                   "the driver drops its own references (forget op) before each census; heap memory is not part of the property"]

    def bases(self, tier, rng):
        n = 48 if tier == "quick" else 500
        return [dict(zip(("program", "meta"), programs.g_life(rng, force_how={1: "unused", 4: "broken_dropped", 7: "unused", 9: "nowait"}.get(i % 10))), config={}, timeouts={"hard_s": 300}) for i in range(n)]

    def derive(self, base, F, rng, tier):
        if rng.random() < 0.25:
            return explore.derive_Z(rng, 1)
        return []

    def oracle(self, case, F):
        return clauses.c01_progress(case, F) + props.c20(case, F)

    def nontrivial(self, case, F):
        tags = [o["call"]["a"].get("tag") for o in F.ops.values() if o["call"] and o["call"]["op"] == "census" and o["end"] is not None and o["end"]["k"] == "ret"]
        if "after_1" not in tags or "after_1+N" not in tags:
            return None
        m = case["meta"]
        self._cycles = getattr(self, "_cycles", 0) + 1 + (m.get("N") or 0)
        return (tuple(m.get("lifecycles", [])), m.get("N"), m.get("mode"))

    def extra_coverage(self):
        return {"lifecycle_repetitions_observed": getattr(self, "_cycles", 0)}


def main(tier):
    return C20().run(tier)
