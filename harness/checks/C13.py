"""C13 - no named semaphore or tracked resource outlives its process tree."""
from .. import explore
from ..gen import programs
from ..oracles import clauses, props
from ..treecheck import TreeCheck


class C13(TreeCheck):
    prop = "C13"
    rule_text = (
        "programs from g_sem: (every fifth program: names removed behind the object by sem_unlink right before its release) histories of Lock/RLock/Semaphore/BoundedSemaphore/Condition/Event/Queue/SimpleQueue and executor creation, use in "
        "child processes (pickled copies, also children that crash), disposal (drop + gc); endings: normal return (objects released or still "
        "live), uncaught exception, sys.exit, os._exit, worker crash -> broken pool, SIGKILL of the parent (program-level and K-mode at a statement "
        "of submit/spawn/SemLock.__init__ in the driver). Each case has a private tmpfs on /dev/shm with an inotify history, so listings are exact. "
        "Profile run, delays (D) in SemLock/_feed/finalizers, jitter. Non-trivial = at least one named semaphore was created; distinct = (ending, "
        "context, executor used, released_all, mode, injection function, number of names bucket)."
    )
    assumptions = ["trees that never end (workers with timeout=None orphaned by a SIGKILLed parent) are outside the premise: parent-kill cases use finite time-outs and wait 50 s for the tree",
                   "'leaked' warnings are only forbidden in histories without any crash/kill/os._exit"]

    def bases(self, tier, rng):
        n = 30 if tier == "quick" else 260
        out = []
        nkill = 0
        for i in range(n):
            prog, meta = programs.g_sem(rng, pre_unlink=True if i % 5 == 2 else None)
            to = {}
            if meta["ending"] == "killself":
                nkill += 1
                if nkill > (3 if tier == "quick" else 20):
                    continue
                to = {"tree_wait_s": 50, "hard_s": 200}
            cfg = {}
            if not meta["use_exec"] and meta["ending"] in ("os_exit", "killself", "return_live") and rng.random() < 0.6:
                # the whole tree (tracker included) runs with warnings turned into errors
                cfg = {"env": {"PYTHONWARNINGS": "error"}}
                meta["warnings_as_errors"] = True
            out.append({"program": prog, "config": cfg, "meta": meta, "timeouts": to})
        return out

    def derive(self, base, F, rng, tier):
        quick = tier == "quick"
        out = []
        if base["meta"]["ending"] == "killself":
            return out
        out += explore.derive_D(F, base, rng, 5 if quick else 14, quals=["SemLock.__init__", "SemLock._cleanup", "SemLock._make_methods", "Queue._feed", "Queue._start_thread",
                                                                    "Queue.close", "_exit_function", "_run_finalizers", "Finalize.__call__", "_python_exit",
                                                                    "_ExecutorManagerThread.join_executor_internals", "ProcessPoolExecutor.shutdown", "SemLock.__getstate__"],
                                delay=rng.choice([0.05, 0.3]))
        if base["meta"]["use_exec"] and rng.random() < (0.25 if quick else 0.5):
            # parent SIGKILL at a statement of submit / spawn: workers must have a finite timeout to end
            prog = base["program"]
            finite = all((o.get("kw") or {}).get("timeout") is not None and (o.get("kw") or {}).get("timeout") <= 1 for o in prog["threads"][0] if o["op"] == "new")
            if finite:
                pts = explore.points_of(F, role="driver", thr="user", quals=["ProcessPoolExecutor.submit", "ProcessPoolExecutor._adjust_process_count", "Popen._launch", "SemLock.__init__", "fork_exec", "ProcessPoolExecutor._start_executor_manager_thread"])
                for pt in explore.stratified_sample(pts, 1 if quick else 3, rng):
                    out.append(({"rules": [explore.rule(pt, ["kill", "SIGKILL"], hit=1)], "_timeouts": {"tree_wait_s": 50, "hard_s": 200}}, {"mode": "KP", "fn": pt["qual"]}))
        # parent SIGKILL while it creates its first named semaphore (no worker exists yet, so the tree ends at once)
        ipts = explore.points_of(F, role="driver", thr="user", quals=["SemLock.__init__"])
        for pt in explore.stratified_sample(ipts, 3 if quick else 8, rng, key=lambda p: p["rel"]):
            out.append(({"rules": [explore.rule(pt, ["kill", "SIGKILL"], hit=1)]}, {"mode": "KP", "fn": "SemLock.__init__+%d" % pt["rel"]}))
        # ... and while it disposes of one (finalizer at drop / gc / interpreter exit)
        cpts = explore.points_of(F, role="driver", quals=["SemLock._cleanup"])
        for pt in explore.stratified_sample(cpts, 3 if quick else 8, rng, key=lambda p: (p["rel"], p["thr"])):
            h = rng.choice(explore.hits_for(pt, rng, which=("first", "last", "random")) or [1])
            finite = all((o.get("kw") or {}).get("timeout") is not None and (o.get("kw") or {}).get("timeout") <= 1 for o in base["program"]["threads"][0] if o["op"] == "new")
            plan = {"rules": [explore.rule(pt, ["kill", "SIGKILL"], hit=h)]}
            if not finite:
                if base["meta"]["use_exec"]:
                    continue  # orphaned workers with a long timeout would never end: outside the premise
            else:
                plan["_timeouts"] = {"tree_wait_s": 50, "hard_s": 200}
            out.append((plan, {"mode": "KP", "fn": "SemLock._cleanup+%d" % pt["rel"]}))
        out += explore.derive_Z(rng, 1)
        # observability for finding F8: which thread runs SemLock._cleanup (a mark, no perturbation)
        marks = [explore.rule(pt, ["mark", "semlock_cleanup"], hit=0) for pt in explore.points_of(F, role="driver", quals=["SemLock._cleanup"]) if pt["rel"] <= 3]
        for m in marks:
            m["thread"] = "*"
        for plan, meta in out:
            plan["rules"] = plan.get("rules", []) + marks
        return out

    def oracle(self, case, F):
        v = props.c13(case, F)
        if not clauses.driver_ended_by_plan(case, F):
            v = clauses.c01_progress(case, F) + v
        return v

    def nontrivial(self, case, F):
        n = getattr(props.c13, "names", 0)
        if not n:
            return None
        self._names = getattr(self, "_names", 0) + n
        m = case["meta"]
        return (m.get("ending"), m.get("ctx"), m.get("use_exec"), m.get("released_all"), m.get("mode"), m.get("fn"), min(n // 5, 6))

    def extra_coverage(self):
        return {"semaphore_names_observed_by_inotify": getattr(self, "_names", 0)}

    def budget(self, tier):
        return 240 if tier == "quick" else 2400


def main(tier):
    return C13().run(tier)
