"""C15 - serialisation customisation is scoped to where it was requested and is faithful.

Runtime monitor (engine: harness/inproc/reduction_monitor.py).  Every scenario
runs in its own child interpreter that imports loky from common.REPO:

  A  non-interference: generated orders of scoped operations (loky dumps/dump with
     reducers, long-lived pickler objects, set_loky_pickler, instance-level
     register, real executors with job/result reducers); after EVERY operation the
     process-wide registries (copyreg, cloudpickle, pickle, multiprocessing, loky's
     own table, the class level of loky's pickler classes) are compared with the
     snapshot taken before the sequence, and fresh picklers are probed with a
     marker-stamping reducer                     -> registry_mutated,
        reducer_leaked_to_later_pickler, reducer_leaked_to_other_pickler,
        reducer_not_applied, scoped_operation_failed
  B  scoping through real executors living side by side (ProcessPoolExecutor and
     get_reusable_executor; E0 none, E1 job only, E2 job+result, E3 result only,
     E4 same map twice) in generated creation/use/shutdown orders
                                                 -> job_reducer_not_applied,
        result_reducer_not_default, result_reducer_not_overriding,
        reducer_leaked_to_other_executor, result_reducer_applied_to_job
  C  fidelity of the built-in reducers: generated graphs of bound methods, class
     methods, method descriptors, partials (args + keywords, nested), both
     back-ends; the round-tripped graph must behave like the original on generated
     calls (value or exception type, side effects on the bound object and on the
     arguments), partial.func/args/keywords must be equal
                                                 -> roundtrip_failed,
        roundtrip_behaviour_differs
  D  pickler identity: sequences of set_loky_pickler / LOKY_PICKLER between
     submissions with more tasks than queue slots behind a slow task and/or the
     manager thread's dispatch delayed by the injector; the pickler the worker
     uses (name seen by the task AND the behaviour of the result pickling) must be
     the one selected when the task was submitted
                                                 -> pickler_not_the_one_selected_at_submit,
        set_loky_pickler_selection_wrong

  E  (harness/inproc/reduction_extra.py, both back-ends) a user reducer keyed by a type loky
     registers itself (functools.partial, bound methods) must win over the built-in one, in a
     pickler and as job_reducers, and must be gone in the next pickler / the neighbouring
     executor; inside a worker of an executor with result_reducers, loky picklers created by
     the task (plain dumps, nested plain executor) must carry no mark of those reducers
                                                 -> user_reducer_overridden_by_builtin,
        reducer_leaked_into_worker_registry (+ the clause names of A/B)

A child that times out or dies is inconclusive, never a violation.
"""
import ast
import collections
import json
import os
import random
import shutil
import signal
import subprocess
import sys
import time

from .. import common
from ..inproc import reduction_monitor as M

PROP = "C15"
PAR = min(8, common.NCPU)
PLAN = {
    # scenarios per part; C: (shards per back-end, examples per shard)
    "quick": {"A": 16, "B": 30, "D": 24, "C": (2, 800), "timeout": 45, "budget": 42, "hard": 56},
    "thorough": {"A": 160, "B": 300, "D": 240, "C": (8, 4000), "timeout": 150, "budget": 400, "hard": 470},
}
MAX_REPORTS_PER_SIG = 2  # identical mechanism signature
MAX_REPORTS_PER_CLAUSE = 6  # same part + clause, whatever the rest of the signature
CHILD_E = "import sys; from harness.inproc import reduction_extra as X; X.main(sys.argv[1], sys.argv[2])"
CHILD = "import sys; from harness.inproc import reduction_monitor as M; sys.exit(M.child_main(sys.argv[1:]))"

ASSUMPTIONS = [
    "the baseline snapshot of the registries is taken in a fresh child interpreter after importing loky, cloudpickle and every module loky imports lazily, and before the first generated operation; registrations done by module imports are therefore part of the baseline",
    "reduction.register() is loky's documented process-wide registration: the harness performs it itself on a harness-only type (GPayload) in some sequences and moves its expectation accordingly; it is never counted as a side effect",
    "influence of a reducer is observed through its marker: reducer_k rebuilds Payload(value, marks + (k,)); identity of the reconstructed marks is an exact witness because nothing else writes marks",
    "built-in reducer fidelity is judged on callables whose attribute lookup is the ordinary one: a method reached through getattr(bound object, function name). Two corner cases where loky's getattr-based reducer - exactly like CPython's own method.__reduce__ - rebinds differently (a base-class function bound to an instance of an overriding subclass; a method name shadowed by an instance attribute) are recorded in coverage.edge_observations and not judged; attributes stored on a partial object (its __dict__) are outside 'func, args, keywords' and not generated",
    "results of calls are compared structurally (harness objects by type name + state, bound methods by function + state of the bound object, functions by identity or code), exceptions by type",
    "with the plain 'pickle' back-end only module-level classes and functions are generated; dynamic classes, lambdas and local functions only with cloudpickle",
    "part D, 'selected at submit' = what get_loky_pickler_name() returned in the submitting thread right before submit(); set_loky_pickler(None)/'' are modelled as 'the LOKY_PICKLER value at import, else cloudpickle'",
    "part D's witness tasks return a local function: being able / unable to send it back is taken as evidence of a cloudpickle / plain pickle result pickler",
    "a child interpreter that exceeds its time limit, BrokenProcessPool/TerminatedWorkerError and future time-outs are inconclusive",
    "third-party pickler modules other than pickle and cloudpickle are not installed (no network) and not exercised",
]

RULE = (
    "All scenarios are derived from random.Random('c15|<VERIF_SEED>|<part>|<index>'). A: 10-18 operations drawn from {set_loky_pickler(None|''|cloudpickle|pickle), "
    "dumps/dump with or without {Payload: reducer_k} and protocol 2-5, new pickler object in one of 3 slots (kept alive and re-used after later operations), instance "
    "register, harness-side global register, executor one-shot or open/use/close (ProcessPoolExecutor or get_reusable_executor, shapes E0-E4, markers 1-8)}. B: 2-4 executors "
    "with disjoint markers, per-executor lanes create/submit*/collect*/shutdown merged in a random order (reusable executors replace each other), optional "
    "set_loky_pickler in between, initial back-end cloudpickle or pickle. C: graphs (depth <= 3 containers) of leaves {bound method of Acc/Vec/dynamic class, classmethod via "
    "class or instance, 17 method descriptors / slot wrappers, 15 builtin bound methods, partial over function/class/any callable with 0-2 args and 0-2 keywords (values may be "
    "callables), partial of partial, dynamic functions}; 2-4 generated calls per leaf (75% signature-aware, 25% junk); route dumps/dump/pickler object, protocol None/2-5, "
    "optionally a custom reducer for a Payload leaf in the same graph. D: LOKY_PICKLER in {unset, '', pickle, cloudpickle}, 2-4 phases of set_loky_pickler + 2-9 tasks "
    "(max_workers=1, first task of a phase sleeps 0.25 s so that later ones are dispatched after the next switch), 35% with the manager's add_call_item_to_queue loop delayed "
    "50 ms per iteration by the sys.monitoring injector. distinct_nontrivial = number of DISTINCT strings 'part|signature|back-end' collected from the children where the "
    "signature is: A the operation label (e.g. executor_with_job_reducers_use, use_pickler_with_reducers) for which a custom reducer's marker was actually observed as expected; "
    "B the full event-order signature of a scenario in which an executor with reducers delivered its markers; C the kind signature of the graph for which the profiler saw "
    "one of loky's _reduce_method/_reduce_method_descriptor/_reduce_partial run (or a custom marker arrive); D the phase signature of a scenario in which the parent's "
    "selection differed between two submits or between a submit and the collection of its result (no reducer involved: non-trivial means a switch was exercised)."
)


def dispatch_point():
    """rel line (from co_firstlineno) of the first statement inside the loop of
    _ExecutorManagerThread.add_call_item_to_queue in the tree under test."""
    try:
        src = open(os.path.join(common.REPO, "loky", "process_executor.py")).read()
        for cls in ast.walk(ast.parse(src)):
            if isinstance(cls, ast.ClassDef) and cls.name == "_ExecutorManagerThread":
                for fn in cls.body:
                    if isinstance(fn, ast.FunctionDef) and fn.name == "add_call_item_to_queue":
                        for st in fn.body:
                            if isinstance(st, ast.While):
                                return st.body[0].lineno - fn.lineno
    except (OSError, SyntaxError):
        pass
    return None


def build_jobs(tier, seed, scratch):
    plan = PLAN[tier]
    jobs = []
    for part, gen in (("A", M.gen_A), ("B", M.gen_B), ("D", M.gen_D)):
        for i in range(plan[part]):
            rng = random.Random("c15|%d|%s|%d" % (seed, part, i))
            j = gen(rng)
            j["name"] = "%s-%03d" % (part, i)
            jobs.append(j)
    shards, n = plan["C"]
    for b in ("cloudpickle", "pickle"):
        for s in range(shards):
            jobs.append({"part": "C", "backend": b, "seed": seed, "first": s * n, "n": n, "edges": s == 0, "name": "C-%s-%02d" % (b, s)})
    rel = dispatch_point()
    for j in jobs:
        j["repo"] = common.REPO
        if j["part"] == "D" and j.get("inject") and rel is None:
            j["inject"] = False
    # interleave the parts so that a budget cut never removes one part entirely
    by = collections.defaultdict(list)
    for j in jobs:
        by[j["part"]].append(j)
    out = []
    while any(by.values()):
        for p in ("B", "D", "A", "C"):
            if by[p]:
                out.append(by[p].pop(0))
    return out, rel


def job_env(j, d, rel):
    extra = {}
    if j["part"] == "D" and j.get("inject"):
        with open(os.path.join(d, "plan.json"), "w") as f:
            json.dump(
                {
                    "seed": 1,
                    "log_env": False,
                    "rules": [
                        {
                            "role": "*",
                            "proc": "*",
                            "thread": "mgr",
                            "file": "process_executor.py",
                            "qual": "_ExecutorManagerThread.add_call_item_to_queue",
                            "rel": rel,
                            "hit": 0,
                            "action": ["sleep", 0.05],
                        }
                    ],
                },
                f,
            )
        extra = {"LOKY_VERIF": "1", "LOKY_VERIF_DIR": d, "LOKY_VERIF_REPO": common.REPO}
    env = common.repo_env(extra)
    if extra:
        env["PYTHONPATH"] = os.pathsep.join([common.SITE, common.REPO, common.VERIF])
    env.pop("LOKY_PICKLER", None)
    if j["part"] == "D" and j.get("env_pickler") is not None:
        env["LOKY_PICKLER"] = j["env_pickler"]
    env["VERIF_REPO"] = common.REPO
    return env


def _kill(p):
    try:
        os.killpg(p.pid, signal.SIGKILL)
    except (OSError, ProcessLookupError):
        try:
            p.kill()
        except OSError:
            pass


def run_jobs(jobs, rel, scratch, timeout, budget, hard, t0):
    pending = list(jobs)
    running = []
    results = []
    skipped = 0
    while pending or running:
        while pending and len(running) < PAR:
            if time.monotonic() - t0 > budget:
                skipped += len(pending)
                pending = []
                break
            j = pending.pop(0)
            d = os.path.join(scratch, j["name"])
            os.makedirs(d, exist_ok=True)
            jf = os.path.join(d, "scenario.json")
            with open(jf, "w") as f:
                json.dump(j, f)
            so, se = open(os.path.join(d, "stdout"), "wb"), open(os.path.join(d, "stderr"), "wb")
            p = subprocess.Popen([common.PY, "-c", CHILD, jf], stdout=so, stderr=se, stdin=subprocess.DEVNULL, env=job_env(j, d, rel), cwd=common.VERIF, start_new_session=True)
            so.close()
            se.close()
            running.append((j, p, d, time.monotonic()))
        for ent in list(running):
            j, p, d, ts = ent
            rc = p.poll()
            if rc is None:
                if time.monotonic() - ts > timeout or time.monotonic() - t0 > hard:
                    _kill(p)
                    p.wait()
                    running.remove(ent)
                    results.append((j, {"timeout": True}, d))
                continue
            running.remove(ent)
            _kill(p)  # stray workers of a finished child, if any
            res = None
            try:
                with open(os.path.join(d, "stdout"), "rb") as f:
                    for line in f.read().decode(errors="replace").splitlines():
                        if line.startswith(M.RESULT_TAG):
                            res = json.loads(line[len(M.RESULT_TAG):])
            except (OSError, ValueError):
                res = None
            if res is None:
                try:
                    err = open(os.path.join(d, "stderr"), "rb").read().decode(errors="replace")[-1500:]
                except OSError:
                    err = ""
                res = {"error": "child exited with %s without a result\n%s" % (rc, err)}
            results.append((j, res, d))
        time.sleep(0.02)
    return results, skipped


def injected_delays(d):
    n = 0
    try:
        for fn in os.listdir(d):
            if fn.startswith("events.") and fn.endswith(".jsonl"):
                with open(os.path.join(d, fn), errors="replace") as f:
                    for line in f:
                        if '"k": "fault"' in line and '"sleep"' in line:
                            n += 1
    except OSError:
        pass
    return n


def main(tier):
    t0 = time.monotonic()
    seed = common.seed()
    V = common.Verdicts(PROP)
    plan = PLAN[tier]
    scratch = common.scratch_root()
    cov_counters = collections.Counter()
    per_part = {p: collections.Counter() for p in "ABCD"}
    nontrivial = set()
    samples = {p: [] for p in "ABCD"}
    edges = None
    sig_seen = collections.Counter()
    clause_seen = collections.Counter()
    suppressed = 0
    engine_errors = []
    skipped = 0
    try:
        jobs, rel = build_jobs(tier, seed, scratch)
        results, skipped = run_jobs(jobs, rel, scratch, plan["timeout"], common.budget(plan["budget"]), plan["hard"], t0)
        for j, r, d in results:
            part = j["part"]
            pp = per_part[part]
            pp["scenarios"] += 1
            if r.get("timeout"):
                V.inconc("subprocess_timeout")
                pp["timeouts"] += 1
                continue
            if "error" in r:
                V.inconc("engine_failed")
                pp["engine_failed"] += 1
                engine_errors.append("%s: %s" % (j["name"], r["error"]))
                continue
            pp["finished"] += 1
            pp["evaluations"] += r["evaluations"]
            for reason in r["inconclusive"]:
                V.inconc(reason)
                pp["inconclusive"] += 1
            for k, v in r["counters"].items():
                cov_counters[k] += v
            nontrivial.update(r["nontrivial"])
            if part == "D" and j.get("inject"):
                n = injected_delays(d)
                cov_counters["dispatch_delays_injected"] += n
                pp["scenarios_with_dispatch_delay"] += 1 if n else 0
            if r.get("edges") and edges is None:
                edges = r["edges"]
            for s in r["samples"]:
                if len(samples[part]) < 2:
                    samples[part].append(s)
            V.ok(max(0, r["evaluations"] - r["n_violations"]))
            for v in r["violations"]:
                key = json.dumps(v["sig"], sort_keys=True)
                ckey = "%s|%s" % (v["sig"].get("part"), v["sig"].get("clause"))
                sig_seen[key] += 1
                clause_seen[ckey] += 1
                if sig_seen[key] > MAX_REPORTS_PER_SIG or clause_seen[ckey] > MAX_REPORTS_PER_CLAUSE:
                    suppressed += 1
                    continue
                name = "s%d-%s-%s-%d" % (seed, tier, j["name"], len(V.violations))
                rp = common.save_replay(
                    PROP,
                    name,
                    files={
                        "scenario.json": v["scenario"],
                        "violation.json": {"sig": v["sig"], "text": v["text"], "job": j["name"]},
                        "HOWTO.txt": "PYTHONPATH=%s:%s %s -m harness.inproc.reduction_monitor %s/scenario.json\n"
                        "(part D scenarios: also export LOKY_PICKLER as given by env_pickler, or unset it)\n" % (common.REPO, common.VERIF, common.PY, os.path.join(common.VERIF, "replays", PROP, name)),
                    },
                )
                V.violation(v["sig"], v["text"], rp)
            extra = r["n_violations"] - len(r["violations"])
            if extra > 0:
                cov_counters["violations_not_listed_same_child"] += extra
        per_part["E"] = collections.Counter()
        for backend in ("pickle", "cloudpickle"):
            per_part["E"]["scenarios"] += 1
            try:
                cp = subprocess.run([common.PY, "-c", CHILD_E, common.REPO, backend], cwd=common.VERIF, env=common.repo_env(), capture_output=True, text=True, timeout=120)
                rep = json.loads(cp.stdout[cp.stdout.index('{"backend"'):])
            except subprocess.TimeoutExpired:
                V.inconc("subprocess_timeout")
                continue
            except ValueError:
                V.inconc("engine_failed")
                engine_errors.append("E-%s: rc=%s\n%s" % (backend, cp.returncode, cp.stderr[-1500:]))
                continue
            per_part["E"]["finished"] += 1
            per_part["E"]["evaluations"] += rep["checks"]
            V.ok(rep["checks"] - len(rep["violations"]))
            if not rep["violations"]:
                nontrivial.add("E|%s" % backend)
            for v in rep["violations"]:
                sig = {"part": "E", "clause": v["clause"], "backend": backend}
                rp = common.save_replay(PROP, "s%d-%s-E-%s-%d" % (seed, tier, backend, len(V.violations)), files={
                    "violation.json": {"sig": sig, "text": v["text"]},
                    "HOWTO.txt": "cd %s && %s -c %r %s %s\n" % (common.VERIF, common.PY, CHILD_E, common.REPO, backend)})
                V.violation(sig, v["text"], rp)
    finally:
        shutil.rmtree(scratch, ignore_errors=True)
    for e in engine_errors[:3]:
        print("engine failure:\n" + e, file=sys.stderr)
    if suppressed:
        print("(%d further violation report(s) with an already reported part+clause / signature not listed: %s)" % (suppressed, json.dumps(dict(clause_seen), sort_keys=True)))
    evaluations = sum(pp["evaluations"] for pp in per_part.values())
    per_part.setdefault("E", collections.Counter())
    cov = {
        "evaluations": int(evaluations),
        "distinct_nontrivial": len(nontrivial),
        "rule": RULE,
        "samples": [s for p in "ABDC" for s in samples[p]][:8],
        "registry_snapshots_compared": int(cov_counters.get("registry_snapshots_compared", 0)),
        "executors_created": int(cov_counters.get("executors_created", 0)),
        "tasks_run": int(cov_counters.get("tasks_run", 0)),
        "roundtrips_compared": int(cov_counters.get("roundtrips_compared", 0)),
        "pickler_probes": int(cov_counters.get("pickler_probes", 0)),
        "other_counters": {k: int(v) for k, v in sorted(cov_counters.items()) if k not in ("registry_snapshots_compared", "executors_created", "tasks_run", "roundtrips_compared", "pickler_probes")},
        "per_part": {p: dict(c) for p, c in per_part.items()},
        "distinct_nontrivial_by_part": {p: sum(1 for s in nontrivial if s.startswith(p + "|")) for p in "ABCDE"},
        "scenarios_skipped_for_budget": int(skipped),
        "dispatch_point_rel": rel,
        "edge_observations": {"note": M.EDGE_NOTE, "cases": edges or []},
        "parallel_children": PAR,
    }
    wall = time.monotonic() - t0
    common.write_evidence(PROP, tier, "exploration", cov, wall, len(V.violations), ASSUMPTIONS)
    need = {"A": max(2, plan["A"] // 2), "B": max(2, plan["B"] // 2), "D": max(2, plan["D"] // 2), "C": max(1, plan["C"][0]), "E": 2}
    short = [p for p in "ABCDE" if per_part[p]["finished"] < need[p]]
    floor_ok = not short and len(nontrivial) >= 20 and not engine_errors
    return V.finish(
        floor_ok,
        "part(s) %s finished fewer scenarios than required (%s), %d engine failure(s), %d scenario(s) skipped for the time budget, %d distinct non-trivial cases"
        % (",".join(short) or "-", json.dumps({p: [per_part[p]["finished"], need[p]] for p in "ABCDE"}), len(engine_errors), skipped, len(nontrivial)),
    )
