"""C01 - every future resolves and no API call hangs (bounded-progress form)."""
from .. import explore
from ..gen import programs
from ..oracles import clauses
from ..treecheck import TreeCheck

DRIVER_FILES = ("process_executor.py", "reusable_executor.py", "backend/queues.py", "mp/queues.py", "backend/synchronize.py", "mp/util.py", "mp/process.py")
WORKER_FILES = ("process_executor.py", "backend/queues.py", "mp/queues.py", "backend/popen_loky_posix.py", "mp/process.py", "backend/synchronize.py")


def delay_for(base, rng):
    t = (base.get("meta", {}).get("kw") or {}).get("timeout")
    if t is not None and t <= 0.3:
        return round(min(1.0, max(0.05, 3 * t)), 3)
    return rng.choice([0.05, 0.3])


class C01(TreeCheck):
    prop = "C01"
    level = "exploration"
    rule_text = (
        "programs from g_mix (1-3 threads; plain/reusable executors; all task kinds incl. pool-breaking ones; cancel/resize/"
        "shutdown(wait=*)/del; 6 ways of ending; every eighth program is g_mass_cancel: 20-40 queued futures on 1-2 workers, most cancelled in one go, live work behind them) run once in profile mode, then re-run with one injected delay (D) at a sampled "
        "statement of the driver's user/manager/feeder threads, two delays in two different driver threads (DD), one injected death (K) at a sampled statement of a worker, or "
        "jitter (Z). A case is non-trivial when the planned fault fired (or, for P/Z cases, when futures were observed); "
        "distinct = distinct (program shape, mode, injection function, fault kind, outcome class)."
    )
    assumptions = [
        "task bodies terminate within 1 s; injected delays <= 1 s",
        "bounded-progress stand-in for 'finite time': no byte of event log written anywhere in the tree for 40 s while the driver lives",
        "crash/delay points are statement boundaries of loky's own code plus random external kills",
    ]

    def n_bases(self, tier):
        return 16 if tier == "quick" else 120

    def per_base(self, tier):
        return (22, 14, 2) if tier == "quick" else (45, 30, 4)

    def bases(self, tier, rng):
        out = []
        forced = ["fork", "spawn", "forkserver", "loky_init_main"]
        for i in range(self.n_bases(tier)):
            if i % 8 == 5:
                prog, meta = programs.g_mass_cancel(rng)
            else:
                prog, meta = programs.g_mix(rng, force_context=forced[i % 4] if (i < 4 or (tier != "quick" and i % 6 == 0)) else None)
            out.append({"program": prog, "config": {}, "meta": meta})
        return out

    def derive(self, base, F, rng, tier):
        nd, nk, nz = self.per_base(tier)
        out = []
        dpts = explore.points_of(F, role="driver", files=DRIVER_FILES)
        for pt in explore.stratified_sample(dpts, nd, rng):
            for h in explore.hits_for(pt, rng, which=(rng.choice(["first", "last", "second", "random"]),)) or [1]:
                out.append(({"rules": [explore.rule(pt, ["sleep", delay_for(base, rng)], hit=h)]}, {"mode": "D", "fn": pt["qual"], "thr": pt["thr"]}))
        workers = sorted({p["proc"] for p in explore.points_of(F, role="worker")})
        if workers:
            w = rng.choice(workers)
            wpts = explore.points_of(F, role="worker", proc=w, files=WORKER_FILES)
            for pt in explore.stratified_sample(wpts, nk, rng):
                act = rng.choice(explore.KILL_ACTIONS)
                for h in explore.hits_for(pt, rng, which=(rng.choice(["first", "last"]),)) or [1]:
                    out.append(({"rules": [explore.rule(pt, act, hit=h)]}, {"mode": "K", "fn": pt["qual"], "act": act[0]}))
        out += explore.derive_DS(F, base, rng, 1 if tier == "quick" else 3)
        out += explore.derive_DD(F, base, rng, 3 if tier == "quick" else 8, files=DRIVER_FILES)
        for z in range(nz):
            out.append(({"seed": rng.randint(0, 10**6), "rules": [{"role": "*", "action": ["jitter", 0.03, 0.02]}]}, {"mode": "Z"}))
        return out

    def oracle(self, case, F):
        return clauses.c01_progress(case, F)

    def nontrivial(self, case, F):
        m = case["meta"]
        fired = F.fired(("sleep", "kill", "exit", "cexit"))
        if m.get("mode") in ("D", "K", "DD") and not fired:
            return None
        if not F.futs:
            return None
        oc = tuple(sorted({(f["done"]["state"] if f["done"] else "pending") for f in F.futs.values()}))
        return (m.get("kind"), m.get("nthreads"), m.get("ending"), m.get("mode"), m.get("fn"), m.get("act"), oc)


def main(tier):
    return C01().run(tier)
