"""C03 - right result to the right future, at-most-once execution, map == builtin map."""
from .. import explore
from ..gen import programs
from ..oracles import clauses, props
from ..treecheck import TreeCheck


class C03(TreeCheck):
    prop = "C03"
    rule_text = (
        "programs from g_route (1-4 submitting threads x 6-40 ops: unique-id tasks, cancel of recent futures, map with chunksize in {1,2,3,7,len,len+5} "
        "over 1-3 iterables of unequal lengths incl. empty, idle time-outs 5-50 ms, resizes; raising bodies of 14 exception classes incl. MemoryError/StopIteration/GeneratorExit; in every third program "
        "one stateful callable wrapped with wrap_non_picklable_objects is submitted repeatedly while the parent changes its state in between) run in profile mode, with one injected delay (D) in "
        "submit/dispatch/result paths, and with jitter (Z); plus an in-process differential run of _get_chunks/_process_chunk/"
        "_chain_from_iterable_of_lists against builtin map. Non-trivial = futures or map calls were observed; distinct = (program shape, mode, "
        "injection function, set of outcome classes, number of executions observed bucketed)."
    )
    assumptions = ["values are small picklable Python objects", "execution counts come from records written inside the task body (first statement)"]

    def bases(self, tier, rng):
        n = 14 if tier == "quick" else 120
        out = []
        for i in range(n):
            prog, meta = programs.g_mass_cancel(rng) if i % 7 == 3 else programs.g_route(rng, wrapped=(i % 3 == 1))
            out.append({"program": prog, "config": {}, "meta": meta})
        return out

    def derive(self, base, F, rng, tier):
        quick = tier == "quick"
        out = explore.derive_D(F, base, rng, 14 if quick else 40, quals=["ProcessPoolExecutor.submit", "_ReusablePoolExecutor.submit", "_ExecutorManagerThread.add_call_item_to_queue",
                                                                    "_ExecutorManagerThread.process_result_item", "_ExecutorManagerThread.wait_result_broken_or_wakeup",
                                                                    "ProcessPoolExecutor._adjust_process_count", "ProcessPoolExecutor._ensure_executor_running",
                                                                    "_ReusablePoolExecutor._resize", "Queue._feed", "Queue.put", "ProcessPoolExecutor.map", "_get_chunks", "_chain_from_iterable_of_lists"])
        out += explore.derive_WD(F, base, rng, 4 if quick else 12)
        out += explore.derive_Z(rng, 4 if quick else 10, p=0.05, dmax=0.01)
        return out

    def oracle(self, case, F):
        return clauses.c01_progress(case, F) + props.c03(case, F)

    def nontrivial(self, case, F):
        if not F.futs and not any(o["call"] and o["call"]["op"] == "map" for o in F.ops.values()):
            return None
        m = case["meta"]
        oc = tuple(sorted({(f["done"]["state"]) if f["done"] else "pending" for f in F.futs.values()}))
        nex = sum(len(t["starts"]) for t in F.tasks.values())
        return (m.get("kind"), m.get("nthreads"), m.get("kw", {}).get("timeout"), m.get("wrapped"), m.get("mode"), m.get("fn"), oc, nex // 10)

    def run(self, tier):
        self._chunks = chunks_differential(tier)
        rc = super().run(tier)
        return rc

    def extra_coverage(self):
        return {"chunk_functions_differential": self._chunks}


def chunks_differential(tier):
    """In-process: the real chunking helpers against builtin map (pure functions)."""
    import itertools
    import random

    from .. import common

    common.ensure_repo_on_path()
    from loky.process_executor import _chain_from_iterable_of_lists, _get_chunks, _process_chunk

    rng = random.Random(common.seed())
    n = 3000 if tier == "quick" else 60000
    bad = []
    for i in range(n):
        k = rng.choice([1, 1, 2, 3])
        its = [[rng.randint(0, 99) for _ in range(rng.choice([0, 1, 2, 3, 5, 8, 13, 40]))] for _ in range(k)]
        c = rng.choice([1, 2, 3, 7, 50])
        fn = (lambda *a: ("r",) + a)
        got = list(_chain_from_iterable_of_lists(_process_chunk(fn, ch) for ch in _get_chunks(c, *its)))
        ref = list(map(fn, *its))
        if got != ref and len(bad) < 3:
            bad.append({"iters": its, "chunksize": c, "got": got[:10], "ref": ref[:10]})
    return {"examples": n, "mismatches": bad}


def main(tier):
    chk = C03()
    rc = chk.run(tier)
    if chk._chunks["mismatches"]:
        print("VIOLATION property=C03 replay=-")
        print("  chunk helpers differ from builtin map: %r" % chk._chunks["mismatches"][:1])
        return 1
    return rc
