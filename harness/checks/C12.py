"""C12 - one resource tracker serves the whole process tree and is self-healing."""
from .. import explore
from ..gen import programs
from ..oracles import clauses, props
from ..treecheck import TreeCheck


class C12(TreeCheck):
    prop = "C12"
    rule_text = (
        "programs from g_tree: depth 0-3 of nested executors (loky / loky_init_main), every process probing the tracker it reports to; variant bad_request (unknown resource type, requests on untracked names, an unknown command: the shared tracker must go on); mode SL (SIGINT reaching the launching process while it spawns the tracker: the next tracked operation must heal); a file "
        "registered by the root; variants: SIGINT/SIGTERM sent to the tracker from outside, SIGKILL of the tracker (repeated) followed by tracked "
        "operations, root killed first (workers finish their tasks, then idle out), leaves first, a worker killed. Profile run of the tracker too: "
        "SIGINT/SIGTERM self-delivered at a statement boundary of the tracker's main() incl. its first lines (S); delays (D) in ensure_running; "
        "jitter. Non-trivial = the tracker pid was observed in at least one member or a signal/kill reached the tracker; distinct = (depth, variant, "
        "mode, injection point, number of members)."
    )
    assumptions = ["'only after the last process is gone' is checked at the granularity of the reaper's timestamps with a 0.3 s tolerance; the generator keeps workers alive >= 1 s after the root in root-first cases",
                   "a file registered with a tracker that is SIGKILLed afterwards cannot be cleaned by anybody (the relaunch warning says so) and is not demanded"]

    def bases(self, tier, rng):
        n = 26 if tier == "quick" else 240
        out = []
        nroot = 0
        for i in range(n):
            prog, meta = programs.g_tree(rng, force_variant="bad_request" if i % 9 == 4 else None)
            to = {"hard_s": 200}
            if meta["variant"] == "root_first":
                nroot += 1
                if nroot > (3 if tier == "quick" else 24):
                    continue
                to = {"tree_wait_s": 50, "hard_s": 200}
            out.append({"program": prog, "config": {"main_level_tracked": bool(meta.get("main_level_tracked"))}, "meta": meta, "timeouts": to})
        return out

    def derive(self, base, F, rng, tier):
        quick = tier == "quick"
        out = []
        if base["meta"]["variant"] == "root_first":
            return out
        tpts = explore.points_of(F, role="tracker", quals=["main"])
        first = [p for p in tpts if p["rel"] <= 12]
        chosen = explore.stratified_sample(first, 2 if quick else 6, rng) + explore.stratified_sample(tpts, 2 if quick else 8, rng)
        for pt in chosen:
            sig = rng.choice(["SIGINT", "SIGTERM"])
            h = rng.choice(explore.hits_for(pt, rng, which=("first", "last", "random")) or [1])
            out.append(({"rules": [explore.rule(pt, ["signal", sig], hit=h, any_proc=True)]}, {"mode": "S", "fn": "tracker.main+%d" % pt["rel"], "sig": sig}))
        out += explore.derive_D(F, base, rng, 3 if quick else 10, quals=["ResourceTracker.ensure_running", "ResourceTracker.maybe_unlink", "spawnv_passfds", "get_preparation_data", "Popen._launch"], delay=0.1)
        # SIGINT reaching the *launching* process while ensure_running has SIGINT/SIGTERM blocked around the spawn (first launch, or
        # relaunch after a kill): it surfaces as KeyboardInterrupt at the unblock; that call may fail, the next tracked operation must
        # heal. Only single-threaded programs (the mask is per thread), only judged when the interrupted call is an explicit tracker op.
        if len(base["program"].get("threads", [])) == 1:
            epts = [p for p in explore.points_of(F, role="driver", thr="user", quals=["spawnv_passfds"])]
            for pt in explore.stratified_sample(epts, 2 if quick else 6, rng, key=lambda p: (p["qual"], p["rel"])):
                for h in ([1] if quick else [1, 2]):
                    out.append(({"rules": [explore.rule(pt, ["signal", "SIGINT"], hit=h)]}, {"mode": "SL", "fn": "%s+%d" % (pt["qual"], pt["rel"]), "sig": "SIGINT"}))
        out += explore.derive_Z(rng, 1)
        return out

    def oracle(self, case, F):
        if case["meta"].get("mode") == "SL":
            sigs = [f for f in F.faults if f.get("kind") == "signal" and f.get("role") == "driver"]
            hit = [o for o in F.ops.values() if o["call"] and sigs and o["call"]["t"] <= sigs[0]["t"] and (o["end"] is None or o["end"]["t"] >= sigs[0]["t"])]
            if not sigs or not hit or any(o["call"]["op"] != "tracker" for o in hit):
                return []  # premise not met: the interrupt did not land inside an explicit tracker operation
        v = props.c12(case, F)
        if not clauses.driver_ended_by_plan(case, F):
            v = clauses.c01_progress(case, F) + v
        return v

    def nontrivial(self, case, F):
        m = case["meta"]
        n = getattr(props.c12, "probes", 0)
        sigs = [f for f in F.faults if f.get("kind") in ("signal", "ext_signal") or f.get("victim") == "tracker"]
        if not n and not sigs:
            return None
        self._sig = getattr(self, "_sig", 0) + len(sigs)
        return (m.get("depth"), m.get("variant"), m.get("mode"), m.get("fn"), m.get("sig"), min(len(F.workers()), 8))

    def extra_coverage(self):
        return {"signals_or_kills_delivered_to_tracker": getattr(self, "_sig", 0)}

    def budget(self, tier):
        return 240 if tier == "quick" else 2400


def main(tier):
    return C12().run(tier)
