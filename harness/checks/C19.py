"""C19 - nested parallelism depth is bounded exactly at LOKY_MAX_DEPTH."""
from .. import explore
from ..gen import programs
from ..oracles import clauses, props
from ..treecheck import TreeCheck


class C19(TreeCheck):
    prop = "C19"
    profile = False
    rule_text = (
        "programs from g_depth: LOKY_MAX_DEPTH in {1,2,3,4, default, 0, -1}; a chain of nested executors (plain/reusable, loky/loky_init_main, "
        "optionally the fork context at depth 1 or 2) built down to the limit plus one attempt beyond it; every level reports the depth it observes and "
        "the outcome of its construction; histories where the same workers serve a second chain, are respawned after an idle time-out, or are added "
        "by a resize; family init_nested (2 of 8 programs): a pool in the chain whose workers build one more executor in their initializer, used by a later task of that worker; family fork_top (2 of 8): the top-level executor itself uses the fork context (allowed at depth 0), its forked workers - which inherit the parent's module state and the per-method singleton context object accepted there - ask for the fork context again (must be refused) and for loky workers (allowed below the limit); plus jitter (Z). Non-trivial = at least one nested construction was attempted; distinct = (MAX_DEPTH, chain depth, fork level, "
        "kind, history variant, tuple of (depth, outcome))."
    )
    assumptions = ["depths beyond 5 are not explored for the unlimited settings (each level costs a process spawn)"]

    def bases(self, tier, rng):
        n = 40 if tier == "quick" else 400
        out = []
        for i in range(n):
            prog, meta = programs.g_depth(rng, family="init_nested" if i % 8 in (2, 5) else "fork_top" if i % 8 in (3, 6) else None)
            out.append({"program": prog, "config": {"env": meta["env"]}, "meta": meta, "timeouts": {"hard_s": 200}})
        return out

    def derive(self, base, F, rng, tier):
        if rng.random() < (0.5 if tier == "quick" else 0.7):
            return explore.derive_Z(rng, 1)
        return []

    def oracle(self, case, F):
        return clauses.c01_progress(case, F) + props.c19(case, F)

    def nontrivial(self, case, F):
        out = getattr(props.c19, "last", None)
        if not out or not out["constructs"]:
            return None
        self._levels = getattr(self, "_levels", 0) + out["levels"]
        self._probes = getattr(self, "_probes", 0) + out["probes"]
        m = case["meta"]
        return (m.get("max_depth"), m.get("depth_to"), m.get("fork_at"), m.get("kind"), m.get("variants"), m.get("init_at"), m.get("mode"), tuple(sorted(set(out["constructs"]))))

    def extra_coverage(self):
        return {"nested_levels_observed": getattr(self, "_levels", 0), "depth_probes_observed": getattr(self, "_probes", 0)}


def main(tier):
    return C19().run(tier)
