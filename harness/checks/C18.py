"""C18 - every worker is a fresh, initialised interpreter with only intended inheritance."""
from .. import explore
from ..gen import programs
from ..oracles import clauses, props
from ..treecheck import TreeCheck


class C18(TreeCheck):
    prop = "C18"
    rule_text = (
        "programs from g_fresh: canary descriptors (pipes, sockets, files; inheritable or not; low, high (50-1000) and sparse numbers) opened before "
        "the executor exists; env overlays (new keys, overrides, empty values) and parent-side environment changes; contexts loky / loky_init_main; "
        "initializer variants (none, token, failing on the n-th spawn, forcing memory-leak exits); bursts separated by pauses > timeout (respawn), "
        "resize up (added workers), a shutdown requested while slowly pickled work is on its way and workers idle out (respawn during the drain; 2 of 11 programs); plus programs from g_exitstatus (bare LokyProcesses ending by os._exit/C exit/sys.exit codes and by terminating signals, collected alternately by join() and by sentinel wait + join(timeout) "
        "signals). Observation at the earliest instant of the worker (sitecustomize, before prepare() and any user import). Profile run, delays (D) in "
        "the spawn path, jitter. Non-trivial = at least one worker start-up snapshot or exit status was compared; distinct = (context, kind, "
        "initializer variant, overlay keys, canary layout size, mode, injection function)."
    )
    assumptions = ["env= is documented to work with the 'loky' context only: the overlay is generated only there",
                   "descriptor identity is by (st_dev, st_ino); the monitor's own log/stack files in the worker are excluded by path"]

    def bases(self, tier, rng):
        n = 22 if tier == "quick" else 200
        out = []
        for i in range(n):
            if i % 8 == 7:
                prog, meta = programs.g_exitstatus(rng, full=False)
            else:
                # initializer variants are stratified: every run has failing initializers of each exception kind
                fi = {1: ("fail_nth", "RuntimeError"), 2: ("fail_nth", "UserWarning"), 3: ("fail_nth", "SystemExit"), 4: ("leak0", None)}.get(i % 11, (None, None))
                drain = i % 11 in (6, 9)
                prog, meta = programs.g_fresh(rng, force_init="token" if drain else fi[0], force_exc=fi[1], force_drain=drain)
            out.append({"program": prog, "config": {"driver_as_module": bool(meta.get("as_module"))}, "meta": meta})
        if tier == "thorough":
            for ctx in ("loky", "loky_init_main"):
                prog, meta = programs.g_exitstatus(rng, full=True)
                prog["threads"][0][0]["ctx"] = ctx
                meta["ctx"] = ctx
                out.append({"program": prog, "config": {}, "meta": meta, "timeouts": {"hard_s": 400}})
        return out

    def derive(self, base, F, rng, tier):
        if base["meta"].get("gen") != "g_fresh":
            return []
        quick = tier == "quick"
        out = explore.derive_D(F, base, rng, 6 if quick else 16, quals=["ProcessPoolExecutor._adjust_process_count", "Popen._launch", "Popen.__init__", "fork_exec",
                                                                   "get_preparation_data", "Popen.duplicate_for_child", "LokyProcess.__init__", "_mk_inheritable",
                                                                   "_ExecutorManagerThread.process_result_item"], delay=0.05)
        out += explore.derive_Z(rng, 1 if quick else 3)
        return out

    def oracle(self, case, F):
        return clauses.c01_progress(case, F) + props.c18(case, F)

    def nontrivial(self, case, F):
        m = case["meta"]
        if m.get("gen") == "g_exitstatus":
            n = sum(len(o["end"]["r"]["results"]) for o in F.ops.values() if o["call"] and o["call"]["op"] == "exitstatus" and o["end"] is not None and o["end"]["k"] == "ret")
            self._statuses = getattr(self, "_statuses", 0) + n
            return ("exitstatus", m.get("ctx"), n) if n else None
        ws = [p for p in F.workers().values() if p.get("ppid") == F.driver_pid]
        if not ws:
            return None
        self._snap = getattr(self, "_snap", 0) + len(ws)
        ncan = sum(len(o["end"]["r"]["canaries"]) for o in F.ops.values() if o["call"] and o["call"]["op"] == "canary" and o["end"] is not None and o["end"]["k"] == "ret")
        return (m.get("ctx"), m.get("kind"), m.get("init"), m.get("as_module"), tuple(sorted(m.get("overlay", {}))), ncan, m.get("mode"), m.get("fn"), min(len(ws), 6))

    def extra_coverage(self):
        return {"worker_startup_snapshots_compared": getattr(self, "_snap", 0), "exit_statuses_compared": getattr(self, "_statuses", 0)}


def main(tier):
    return C18().run(tier)
