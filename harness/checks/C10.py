"""C10 - resizing preserves submitted work and surviving workers, and terminates."""
from .. import explore
from ..gen import programs
from ..oracles import clauses, props
from ..treecheck import TreeCheck

QUALS = ["_ReusablePoolExecutor._resize", "_ReusablePoolExecutor._wait_job_completion", "_ReusablePoolExecutor.get_reusable_executor",
         "ProcessPoolExecutor._adjust_process_count", "_ReusablePoolExecutor._resize.<locals>.<genexpr>"]


class C10(TreeCheck):
    prop = "C10"
    rule_text = (
        "programs from g_resize (family callback_submits in 2 of 7 programs: the jobs in flight during the resize - one job, or several - have done-callbacks that submit to the executor; old,new in 1..6; in-flight work 0-3x capacity; timeout in {none,0.3,0.05,0.01}; repeated resizes) in profile mode; "
        "a delay of 3x the timeout at every discovered statement of _resize/_wait_job_completion (D, enumerated in the thorough tier, sampled in "
        "quick) and at the worker's time-out/exit points (WD); a worker death at a sampled worker statement while the resize runs (K); jitter (Z). "
        "Non-trivial = a size-changing factory call on a started executor returned (or stalled); distinct = (old,new, timeout, mode, injection "
        "function, whether the premise of the count/survivor clause held)."
    )
    assumptions = ["the worker-count and survivor clauses are evaluated only when no worker timed out or died between 2 s before the call and its return (the statement's own premise) and the executor had been started",
                   "termination is the bounded-progress form of C01"]

    def bases(self, tier, rng):
        n = 14 if tier == "quick" else 100
        return [dict(zip(("program", "meta"), programs.g_resize(rng, family="callback_submits" if i % 7 in (2, 5) else None, single=(i % 7 == 5))), config={}) for i in range(n)]

    def derive(self, base, F, rng, tier):
        quick = tier == "quick"
        m = base["meta"]
        if m.get("family") == "callback_submits" and (m.get("direction") == "shrink" or not m.get("single")):
            # these programs dead-lock on the unchanged tree (open findings F26/F26b): every derived case would cost a 40 s stall
            return explore.derive_Z(rng, 1)
        out = explore.derive_D(F, base, rng, 14 if quick else 200, quals=QUALS, which=("first", "last", "second"))
        # the manager thread lags behind (results and exit announcements pile up) while the resize runs
        out += explore.derive_D(F, base, rng, 4 if quick else 12, quals=["_ExecutorManagerThread.process_result_item", "_ExecutorManagerThread.wait_result_broken_or_wakeup",
                                                                       "_ExecutorManagerThread.add_call_item_to_queue", "_ExecutorManagerThread.run"], thr="mgr")
        out += explore.derive_DS(F, base, rng, 2 if quick else 4, quals=("_ExecutorManagerThread.process_result_item", "_ExecutorManagerThread.wait_result_broken_or_wakeup"), d=0.03)
        out += explore.derive_WD(F, base, rng, 5 if quick else 14, quals=["_process_worker", "Queue.get", "SimpleQueue.put"])
        out += explore.derive_K(F, base, rng, 5 if quick else 16)
        out += explore.derive_Z(rng, 2 if quick else 6)
        return out

    def oracle(self, case, F):
        return clauses.c01_progress(case, F) + props.c10(case, F)

    def nontrivial(self, case, F):
        ops = [o for o in F.ops.values() if o["call"] and o["call"]["op"] == "get_reusable" and o["call"]["a"].get("resize")]
        if not ops:
            return None
        m = case["meta"]
        rs = tuple(tuple(o["call"]["a"]["resize"]) for o in ops)[:4]
        return (rs, m.get("family"), m.get("kw", {}).get("timeout"), m.get("mode"), m.get("fn"), F.outcome)


def main(tier):
    return C10().run(tier)
