"""C05 - graceful shutdown drains all submitted work and leaves nothing behind."""
from .. import explore
from ..gen import programs
from ..oracles import clauses, props
from ..treecheck import TreeCheck

QUALS = ["ProcessPoolExecutor.shutdown", "_ExecutorManagerThread.is_shutting_down", "_ExecutorManagerThread.flag_executor_shutting_down",
         "_ExecutorManagerThread.shutdown_workers", "_ExecutorManagerThread.join_executor_internals", "_python_exit", "_ExecutorManagerThread.run",
         "_ExecutorManagerThread.__init__", "_ExecutorManagerThread.process_result_item", "_ExecutorManagerThread.add_call_item_to_queue",
         "_ExecutorManagerThread.wait_result_broken_or_wakeup", "_ExecutorManagerThread.get_n_children_alive", "_ExecutorFlags.flag_as_shutting_down",
         "ProcessPoolExecutor.submit", "Queue._feed", "Queue.close", "Queue.join_thread", "_ThreadWakeup.wakeup", "_ThreadWakeup.close", "_ThreadWakeup.clear"]


class C05(TreeCheck):
    prop = "C05"
    rule_text = (
        "programs from g_many_at_exit (every tenth: 6-12 executors alive, idle or with work in flight, when the script ends), g_slow_exit (every tenth: workers that need 1.5-3 s to leave after their sentinel) and g_drain: the shutdown request is issued by shutdown(wait=True/False), context manager, del+gc, falling off __main__, or from a "
        "second thread; at a position in {before any dispatch, mid-dispatch, after all done, long after (workers idled out)}; idle timeout in "
        "{None,0.2,0.02}; slow-pickling arguments; more workers than free queue slots. Profile run, then one delay (D) at a statement of the shutdown "
        "machinery in the parent, or in the worker's exit handshake (WD), or jitter (Z). Non-trivial = a shutdown request was observed with futures "
        "handed out before it; distinct = (how, position, kind, timeout, mode, injection function)."
    )
    assumptions = ["the queue feeder is a daemon thread that loky signals but does not join: it must be gone within a 5 s grace, the manager thread at completion",
                   "'completion' = return of shutdown(wait=True)/with, or the end of the manager thread for wait=False/del/interpreter exit"]

    def bases(self, tier, rng):
        n = 20 if tier == "quick" else 160
        out = []
        for i in range(n):
            prog, meta = programs.g_many_at_exit(rng) if i % 10 == 3 else programs.g_slow_exit(rng) if i % 10 == 7 else programs.g_drain(rng)
            out.append({"program": prog, "meta": meta, "config": {"keep_procs": True, "env": meta.get("env", {})}})
        return out

    def derive(self, base, F, rng, tier):
        quick = tier == "quick"
        out = explore.derive_D(F, base, rng, 18 if quick else 50, quals=QUALS)
        out += explore.derive_WD(F, base, rng, 6 if quick else 14, quals=["_process_worker", "_python_exit", "Queue.get", "SimpleQueue.put"])
        out += explore.derive_Z(rng, 2 if quick else 6)
        return out

    def oracle(self, case, F):
        return clauses.c01_progress(case, F) + props.c05(case, F)

    def nontrivial(self, case, F):
        if not F.futs:
            return None
        m = case["meta"]
        return (m.get("how"), m.get("position"), m.get("family"), m.get("kind"), m.get("kw", {}).get("timeout"), m.get("mode"), m.get("fn"))


def main(tier):
    return C05().run(tier)
