"""C07 - idle-timeout exits are invisible: never 'broken', never a lost task."""
from .. import explore
from ..gen import programs
from ..oracles import clauses, props
from ..treecheck import TreeCheck

QUALS = ["ProcessPoolExecutor.submit", "_ReusablePoolExecutor.submit", "ProcessPoolExecutor._ensure_executor_running", "ProcessPoolExecutor._adjust_process_count",
         "_ExecutorManagerThread.add_call_item_to_queue", "_ExecutorManagerThread.process_result_item", "_ExecutorManagerThread.wait_result_broken_or_wakeup",
         "_ReusablePoolExecutor._resize", "_ReusablePoolExecutor._wait_job_completion", "_ExecutorManagerThread.shutdown_workers",
         "_ExecutorManagerThread.join_executor_internals", "_ExecutorManagerThread.run", "ProcessPoolExecutor._start_executor_manager_thread",
         "BaseProcess.sentinel", "BaseProcess.is_alive", "BaseProcess.start", "BaseProcess.join", "BaseProcess.exitcode"]


class C07(TreeCheck):
    prop = "C07"
    rule_text = (
        "programs from g_idle (timeout in {0.5,0.1,0.02,0.005,0.001}; 1-6 workers; bursts separated by pauses of 0.5x-3x the timeout; slow pickling; "
        "resizes; memory-leak exits forced by an initializer; waited / non-waited shutdown or interpreter exit) in profile mode, with a delay of 3x the "
        "timeout at a statement of submit/spawn/dispatch/announcement processing/respawn/_resize/shutdown_workers in the parent (D), at a statement of "
        "the worker between Empty, the management-lock probe, the pid announcement and the exit-lock wait (WD), and jitter (Z); families nowait_pending (shutdown(wait=False) "
        "with slowly pickled work on its way while every idle timer fires) and submit_into_expiring_pool (a single submit into a started idle pool, held at each statement of submit() in turn for 4x the timeout). Non-trivial = at least "
        "one worker left through the time-out or memory-leak branch (classified from its own line events); distinct = (shape, mode, injection "
        "function, exit-path multiset bucket, respawn warning seen)."
    )
    assumptions = ["no worker death is injected in these histories", "the UserWarning 'A worker stopped while some jobs were given' is allowed and counted"]

    def bases(self, tier, rng):
        n = 16 if tier == "quick" else 140
        return [dict(zip(("program", "meta"), programs.g_idle(rng, family={2: "nowait_pending", 5: "submit_into_expiring_pool"}.get(i % 8))), config={"keep_procs": True}) for i in range(n)]

    def derive(self, base, F, rng, tier):
        quick = tier == "quick"
        out = explore.derive_D(F, base, rng, 16 if quick else 45, quals=QUALS)
        out += explore.derive_WD(F, base, rng, 10 if quick else 25, quals=["_process_worker", "Queue.get", "SimpleQueue.put", "SemLock.acquire", "SemLock.release", "_python_exit"])
        out += explore.derive_DS(F, base, rng, 2 if quick else 4)
        if base["meta"].get("family") == "submit_into_expiring_pool":
            # the second submit() is held at each of its statements in turn while every worker of the idle pool expires
            tmo = base["meta"]["kw"]["timeout"]
            for pt in explore.points_of(F, role="driver", thr="user", quals=["ProcessPoolExecutor.submit", "_ReusablePoolExecutor.submit", "ProcessPoolExecutor._ensure_executor_running"]):
                out.append(({"rules": [explore.rule(pt, ["sleep", round(4 * tmo + 0.3, 3)], hit=2)]}, {"mode": "D", "fn": pt["qual"], "thr": "user", "at": "second_submit"}))
        out += explore.derive_Z(rng, 2 if quick else 6)
        return out

    def oracle(self, case, F):
        return clauses.c01_progress(case, F) + props.c07(case, F)

    def nontrivial(self, case, F):
        paths = [F.worker_exit_path(p) for p in F.workers()]
        n_to = sum(1 for p in paths if p in ("timeout", "memleak"))
        if n_to == 0:
            return None
        m = case["meta"]
        warned = any("A worker stopped while some jobs" in w.get("msg", "") for w in F.warnings)
        self._exit_paths = getattr(self, "_exit_paths", {})
        for p in paths:
            self._exit_paths[p] = self._exit_paths.get(p, 0) + 1
        self._respawn_warnings = getattr(self, "_respawn_warnings", 0) + (1 if warned else 0)
        return (m.get("kind"), m.get("kw", {}).get("timeout"), m.get("kw", {}).get("max_workers"), m.get("ending"), m.get("family"), m.get("mode"), m.get("fn"), min(n_to, 4), warned)

    def extra_coverage(self):
        return {"worker_exit_paths": getattr(self, "_exit_paths", {}), "cases_with_respawn_warning": getattr(self, "_respawn_warnings", 0)}


def main(tier):
    return C07().run(tier)
