"""Oracle clauses shared by the process-tree properties.

Each clause is a deterministic function of the recorded history (Facts) and
returns a list of (signature, text). Signatures describe the *mechanism* and
are what known_findings.json is matched against.
"""
import json


def history_features(case, F):
    """Features of the history used in mechanism signatures (never random values)."""
    ops = [o["call"] for o in F.ops.values() if o["call"] is not None]
    feats = {}
    feats["shutdown_nowait"] = any(o["op"] == "shutdown" and o["a"].get("wait") is False for o in ops)
    feats["executor_deleted"] = any(o["op"] == "del" for o in ops)
    tmo = set()
    for o in ops:
        kw = o.get("a", {}).get("kw") or {}
        if o["op"] in ("new", "get_reusable"):
            tmo.add(kw.get("timeout", 10 if (o["op"] == "get_reusable" or o["a"].get("kind") == "reusable") else None))
    feats["finite_timeout"] = any(t is not None for t in tmo)
    feats["resize"] = any(o["op"] == "get_reusable" for o in ops)
    ctxs = set()
    for o in ops:
        if o["op"] in ("new", "get_reusable"):
            ctxs.add((o.get("a", {}).get("kw") or {}).get("context") or "loky")
    feats["start_method"] = sorted(ctxs)[0] if len(ctxs) == 1 else ("mixed" if ctxs else None)
    te = [t for t in F.thread_exceptions if t["pid"] == F.driver_pid]
    mgr = [t for t in te if str(t.get("thread", "")).startswith("ExecutorManagerThread")]
    feats["mgr_exception"] = mgr[0]["etype"] if mgr else None
    feats["mgr_exception_in"] = _innermost_loky_func(mgr[0]["tb"]) if mgr else None
    fired = [f for f in F.faults if f.get("kind") in ("sleep", "kill", "exit", "cexit", "signal")]
    if fired:
        f0 = fired[0]
        pt = f0.get("pt") or [None, None, None]
        feats["fault_kind"] = "death" if f0["kind"] in ("kill", "exit", "cexit") else f0["kind"]
        if f0["kind"] == "sleep" and any(f.get("kind") in ("kill", "exit", "cexit") and f.get("pt") == f0.get("pt") and f.get("pid") == f0.get("pid") for f in fired[1:]):
            # linger-then-die at one statement (LK plans): the death is the fault, the linger only widens its window
            feats["fault_kind"] = "death"
        feats["fault_role"] = f0.get("role")
        feats["fault_func"] = "%s:%s" % (pt[0], pt[1])
    else:
        feats["fault_kind"] = None
        feats["fault_role"] = None
        feats["fault_func"] = None
    feats["ext_kill"] = any(f.get("kind") == "ext_kill" for f in F.faults)
    # a worker killed at the statement between acquire and release of the management lock in its time-out branch
    rel = _mgmt_release_rel()
    feats["death_holding_management_lock"] = bool(rel is not None and any(
        f.get("kind") in ("kill", "exit", "cexit") and f.get("role") == "worker" and list(f.get("pt") or []) == ["process_executor.py", "_process_worker", rel] for f in F.faults))
    return feats


_REL_CACHE = {}


def _mgmt_release_rel():
    if "r" not in _REL_CACHE:
        from .. import explore

        _REL_CACHE["r"] = explore.rel_of_source("process_executor.py", "_process_worker", "processes_management_lock.release()")
    return _REL_CACHE["r"]


def _innermost_loky_func(tb):
    last = None
    for line in (tb or "").splitlines():
        line = line.strip()
        if line.startswith('File "') and "/loky/" in line and ", in " in line:
            last = "%s:%s" % (line.split("/loky/")[-1].split('"')[0], line.rsplit(", in ", 1)[-1])
    return last


def driver_ended_by_plan(case, F):
    """The program itself ends the driver abruptly (os._exit / SIGKILL) or the
    plan kills the driver: futures may legitimately be left behind."""
    end = case["program"].get("end", "return")
    if end in ("os_exit", "killself"):
        return True
    for f in F.faults:
        if f.get("role") == "driver" and f.get("kind") in ("kill", "exit", "cexit", "killself"):
            return True
    return False


def witness_text(case, F, head):
    sig = F.stall_signature()
    lines = [head]
    lines.append("meta: %s" % json.dumps(case.get("meta"), sort_keys=True)[:600])
    lines.append("plan: %s" % json.dumps([{k: r.get(k) for k in ("role", "proc", "thread", "file", "qual", "rel", "hit", "action")} for r in case["plan"].get("rules", [])])[:600])
    lines.append("faults fired: %s" % json.dumps([[f.get("kind"), f.get("pt"), f.get("role"), f.get("proc")] for f in F.faults])[:500])
    if sig:
        lines.append("stall witness: %s" % json.dumps(sig, sort_keys=True))
    und = F.undone()
    if und:
        lines.append("undone futures (%d): %s" % (len(und), und[:10]))
    oo = F.open_ops()
    if oo:
        lines.append("calls that never returned: %s" % [(oid, F.ops[oid]["call"]["op"]) for oid in oo][:10])
    for t in F.thread_exceptions[:3]:
        lines.append("thread exception in %s (pid %s): %s\n%s" % (t.get("thread"), t.get("pid"), t.get("etype"), (t.get("tb") or "")[-800:]))
    return "\n".join(lines)


def c01_progress(case, F):
    """C01 (bounded-progress form): with terminating tasks and bounded injected
    delays, every handed-out future is terminal, every API call has returned
    and the driver has exited before the tree has been silent for STALL s."""
    v = []
    feats = history_features(case, F)
    if F.outcome == "stall":
        sig = dict(feats)
        sig.update(F.stall_signature() or {})
        sig["clause"] = "stall"
        und = F.undone()
        oo = F.open_ops()
        sig["open_op"] = sorted(set(F.ops[o]["call"]["op"] for o in oo))[0] if oo else None
        sig["exit_phase"] = F.main_returned
        sig["undone_ge2"] = len(und) >= 2
        v.append((sig, witness_text(case, F, "no progress anywhere in the tree for %.0f s: %d future(s) pending, %d call(s) open, driver %s" % (
            (F.final.get("stall") or {}).get("silent_s", 0), len(und), len(oo), "in interpreter exit" if F.main_returned else "running"))))
        return v
    if F.outcome in ("ended", "survivors") and not driver_ended_by_plan(case, F):
        if F.final.get("driver_status") == 0 and F.main_returned:
            und = F.undone()
            if und:
                sig = dict(feats)
                sig["clause"] = "future_never_resolved"
                v.append((sig, witness_text(case, F, "driver exited normally but %d handed-out future(s) never reached a terminal state" % len(und))))
        elif F.final.get("driver_status") not in (0, None) and case["program"].get("end", "return") in ("return", "wait_all_return"):
            sig = dict(feats)
            sig["clause"] = "driver_crashed"
            sig["status"] = F.final.get("driver_status")
            v.append((sig, witness_text(case, F, "driver interpreter ended with status %r\nstderr tail:\n%s" % (F.final.get("driver_status"), F.h.read("stderr.txt", 1500)))))
    return v
