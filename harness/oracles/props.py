"""Per-property oracle clauses over Facts (see DESIGN section 3 for E/O of each)."""
import json

from .clauses import history_features, witness_text, driver_ended_by_plan

DEATH_KINDS = ("kill", "exit", "cexit")
SHUTDOWN_OPS = ("shutdown", "with", "del")


def _sig(case, F, clause, **kw):
    s = history_features(case, F)
    s["clause"] = clause
    s.update(kw)
    return s


def _fut_expected_ok(f):
    """Does the future's terminal state equal the reference outcome of its task?"""
    d = f["done"]
    s = f["submit"]
    if d is None or s is None:
        return False
    exp = s.get("exp")
    if exp is None:
        return True
    if exp[0] == "value":
        return d["state"] == "result" and d.get("value") == exp[1]
    if exp[0] == "exc":
        if d["state"] != "exception":
            return False
        e = d["exc"]
        return e["type"] == exp[1] and list(e["args"]) == list(exp[2])
    if exp[0] == "unsendable":
        return d["state"] == "exception" and d["exc"]["type"] == exp[1]
    if exp[0] == "exc_any":
        # the task raised an exception instance that cannot be transported: its own future must fail (with whatever
        # describes the failure), but not with an error that says the POOL is gone
        return d["state"] == "exception" and d["exc"]["type"] not in ("BrokenProcessPool", "TerminatedWorkerError", "ShutdownExecutorError")
    return True  # 'special' outcomes are judged by their own clauses


def expected_code_string(f):
    """How loky names the exit status of a worker that died by fault f."""
    if f.get("kind") in ("kill", "ext_kill") or (f.get("k") == "die" and f.get("how") == "sig"):
        import signal

        name = f.get("sig") or f.get("code")
        if isinstance(name, int):
            try:
                return "%s(-%d)" % (signal.Signals(name).name, name)
            except ValueError:
                return "UNKNOWN(-%d)" % name
        n = int(getattr(signal, name))
        return "%s(-%d)" % (name, n)
    code = f.get("code")
    if code is None:
        return None
    return "UNKNOWN(255)" if code == 255 else "EXIT(%d)" % code


# ------------------------------------------------------------------ death facts
def worker_deaths(F):
    """Abrupt deaths applied to workers in this history: injector faults, external
    kills by the driver's chaos op, and die() tasks. Each: dict(pid, t, ann, how)."""
    out = []
    workers = F.workers()
    for f in F.faults:
        if f.get("kind") in DEATH_KINDS and f.get("role") == "worker":
            out.append({"pid": f["pid"], "t": f["t"], "ann": f.get("ann", 0), "src": f, "pt": f.get("pt")})
        elif f.get("kind") == "ext_kill" and f.get("target") in workers and f.get("sig") in ("SIGKILL", "SIGTERM", "SIGSEGV", "SIGABRT"):
            anns = [m for m in F.wmarks.get(f["target"], []) if m["t"] <= f["t"]]
            names = [m["name"] for m in anns]
            ann = 2 if "announced" in names else (1 if "announce" in names else 0)
            out.append({"pid": f["target"], "t": f["t"], "ann": ann, "src": f, "pt": None})
    for e in F.h.by("die"):
        if e["pid"] in workers and e.get("how") != "sysexit":
            out.append({"pid": e["pid"], "t": e["t"], "ann": 0, "src": e, "pt": None})
    return sorted(out, key=lambda d: d["t"])


def first_shutdown_request_t(case, F):
    """Time of the first request after which worker exits are 'by request':
    shutdown()/with-exit/del/replacement by the factory/interpreter exit."""
    ts = []
    for o in F.ops.values():
        c = o["call"]
        if c is None:
            continue
        if c["op"] in ("shutdown", "del"):
            ts.append(c["t"])
        elif c["op"] == "with" and o["end"] is not None:
            ts.append(c["t"])  # conservative: the whole with-block counts
        elif c["op"] == "get_reusable":
            ts.append(c["t"])  # may resize (sentinels) or replace (shutdown)
    if F.program_end is not None:
        ts.append(F.program_end["t"])
    return min(ts) if ts else float("inf")


def sentinel_seen_before(F, pid, t):
    return any(m["name"] == "sentinel_branch" and m["t"] <= t for m in F.wmarks.get(pid, []))


# ------------------------------------------------------------------ C02
def c02(case, F):
    v = []
    if F.outcome not in ("ended", "survivors") or driver_ended_by_plan(case, F):
        return v
    deaths = worker_deaths(F)
    t_shut = first_shutdown_request_t(case, F)
    must = [d for d in deaths if d["ann"] == 0 and d["t"] < t_shut and not sentinel_seen_before(F, d["pid"], d["t"])]
    handed = F.handed_out()
    # (a) no fabricated values, ever: a result needs a completed execution and the reference value
    for name, f in handed.items():
        d = f["done"]
        if d is None:
            continue
        tid = f["submit"]["tid"]
        if d["state"] == "result":
            ends = [e for e in F.tasks.get(tid, {}).get("ends", []) if not e.get("exc")]
            if not ends:
                v.append((_sig(case, F, "fabricated_value"), witness_text(case, F, "future %s holds a value although its task body never completed: %r" % (name, d.get("value")))))
            elif not _fut_expected_ok(f):
                v.append((_sig(case, F, "wrong_value"), witness_text(case, F, "future %s: value %r != reference %r" % (name, d.get("value"), f["submit"].get("exp")))))
        if len(f["dones"]) > 1:
            v.append((_sig(case, F, "outcome_changed"), witness_text(case, F, "future %s reported %d terminal states" % (name, len(f["dones"])))))
    # unpickling failures (either direction) -> BrokenProcessPool with the remote traceback
    for name, f in handed.items():
        exp = (f["submit"] or {}).get("exp")
        d = f["done"]
        if exp and exp[0] == "special" and exp[1] == "breaks_pool" and d is not None:
            if d["state"] == "result":
                v.append((_sig(case, F, "breaking_task_got_value"), witness_text(case, F, "future %s of a pool-breaking task resolved with a value %r" % (name, d.get("value")))))
    if not must:
        return v
    d0 = must[0]
    # (b) every future unresolved at the death, or handed out later, fails with the pool's BrokenProcessPool
    affected = []
    for name, f in handed.items():
        d = f["done"]
        if d is None:
            v.append((_sig(case, F, "pending_after_death"), witness_text(case, F, "future %s still pending at the end although worker pid %s died unannounced at %s" % (name, d0["pid"], d0.get("pt")))))
            continue
        if d["t"] < d0["t"]:
            continue
        affected.append(name)
        if d["state"] == "cancelled":
            continue
        if d["state"] == "result":
            continue  # completed before the breakage was processed: allowed iff genuine (checked above)
        e = d["exc"]
        if e["is_cf_broken"]:
            if e["type"] == "TerminatedWorkerError":
                want = expected_code_string(d0["src"])
                codes = [expected_code_string(x["src"]) for x in must]
                if want and not any(c and c in e["str"] for c in codes) and not case.get("config", {}).get("sigchld_ignore"):
                    v.append((_sig(case, F, "exit_code_not_named"), witness_text(case, F, "TerminatedWorkerError does not name the exit status %s of the dead worker: %s" % (want, e["str"][:400]))))
            continue
        if _fut_expected_ok(f):
            continue  # its own task-level outcome, produced before the breakage was processed
        v.append((_sig(case, F, "wrong_exception_after_death", etype=e["type"]), witness_text(case, F, "future %s failed with %s(%r) instead of BrokenProcessPool/TerminatedWorkerError" % (name, e["type"], e["args"]))))
    # (c) submits issued after the death: raise the same error, or hand out a future that fails with it
    for o in F.ops.values():
        c, e = o["call"], o["end"]
        if c is None or c["op"] != "submit" or c["t"] < d0["t"] or e is None:
            continue
        if c["t"] > t_shut:
            continue
        if e["k"] == "exc" and not e["exc"]["is_cf_broken"] and e["exc"]["type"] != "ShutdownExecutorError":
            v.append((_sig(case, F, "submit_after_death_wrong_error", etype=e["exc"]["type"]), witness_text(case, F, "submit after the death raised %s, not the pool's BrokenProcessPool" % e["exc"]["type"])))
    # once a future has been failed with the pool's error, every later submit on that executor raises it
    broken_done = sorted(d["t"] for d in (f["done"] for f in handed.values()) if d is not None and d["state"] == "exception" and d["exc"]["is_cf_broken"])
    if broken_done and _single_executor(case) and not any(o["call"] and o["call"]["op"] == "get_reusable" for o in F.ops.values()):
        t_b = broken_done[0]
        for o in F.ops.values():
            c, e = o["call"], o["end"]
            if c is None or c["op"] != "submit" or c["t"] <= t_b or e is None:
                continue
            if e["k"] == "ret":
                v.append((_sig(case, F, "submit_accepted_after_break"), witness_text(case, F, "submit() returned a future although a future of this executor had already failed with BrokenProcessPool")))
            elif not e["exc"]["is_cf_broken"]:
                v.append((_sig(case, F, "submit_after_break_wrong_error", etype=e["exc"]["type"]), witness_text(case, F, "submit() after the breakage raised %s" % e["exc"]["type"])))
    # (d) flag set once something was affected; all workers gone and reaped
    snaps = []
    for o in F.ops.values():
        e = o["end"]
        if e is not None and e["k"] == "ret" and isinstance(e.get("r"), dict) and e["r"].get("snap") and o["call"]["op"] in ("shutdown", "with", "join_mgr"):
            snaps.append(e)
    for e in snaps:
        r = e["r"]
        if e["t"] < d0["t"]:
            continue
        if broken_done and broken_done[0] < e["t"] and r["snap"].get("broken") is None and not r["snap"].get("snap_err") and _single_executor(case):
            v.append((_sig(case, F, "not_flagged_broken"), witness_text(case, F, "executor not flagged broken although futures were failed with BrokenProcessPool")))
        if r.get("pids_alive") or r.get("pids_zombie"):
            waited = o_wait(F, e)
            if waited and (case.get("config") or {}).get("sigchld_ignore"):
                # a host that ignores SIGCHLD lets the kernel reap: waitpid cannot confirm a death (ECHILD), so join() may
                # return while the SIGKILLed worker is still dying; what can be demanded there is that none survives the tree
                surv = {p_["pid"] for p_ in (F.final.get("survivors") or [])}
                waited = bool(surv & set(r.get("pids_alive") or []))
            if waited:
                v.append((_sig(case, F, "workers_left_after_break"), witness_text(case, F, "after shutdown of the broken executor returned: alive=%s zombies=%s" % (r.get("pids_alive"), r.get("pids_zombie")))))
    surv = [p for p in (F.final.get("survivors") or []) if "popen_loky_posix" in (p.get("cmdline") or "")]
    if surv:
        v.append((_sig(case, F, "workers_survive_tree"), witness_text(case, F, "worker processes still alive after the driver exited: %s" % [(p["pid"], p.get("state")) for p in surv])))
    # "all remaining workers are killed": a worker that was in the middle of a task when the pool broke cannot
    # have left with status 0 afterwards (it is SIGKILLed; only its own injected death gives another status)
    if broken_done and not case.get("config", {}).get("sigchld_ignore"):
        t_b = broken_done[0]
        busy = {}
        for tid, t in F.tasks.items():
            for st in t["starts"]:
                if st["t"] < t_b and not any(en["t"] < t_b and en["pid"] == st["pid"] for en in t["ends"]) and (F.procs.get(st["pid"]) or {}).get("ppid") == F.driver_pid:
                    busy[st["pid"]] = tid
        dead_by_plan = {d["pid"] for d in deaths}
        codes = {}
        for e in snaps:
            codes.update(e["r"].get("exitcodes") or {})
        for pid, tid in busy.items():
            c = codes.get(str(pid))
            if pid not in dead_by_plan and c == 0:
                v.append((_sig(case, F, "worker_not_killed_after_break"), witness_text(case, F, "worker pid %d was running task %s when the pool broke and later left with exit status 0: it was not killed" % (pid, tid))))
    return v


def o_wait(F, end_rec):
    c = F.ops[end_rec["oid"]]["call"]
    if c["op"] == "shutdown":
        return c["a"].get("wait", True) is not False
    return True


# ------------------------------------------------------------------ C03
def c03(case, F):
    v = []
    if F.outcome not in ("ended", "survivors"):
        return v
    handed = F.handed_out()
    cancelled_true = set()
    for o in F.ops.values():
        c, e = o["call"], o["end"]
        if c and c["op"] == "cancel" and e and e["k"] == "ret" and e["r"].get("cancelled"):
            cancelled_true.add(c["a"]["fut"])
    for name, f in handed.items():
        d = f["done"]
        tid = f["submit"]["tid"]
        starts = F.tasks.get(tid, {}).get("starts", [])
        if len(starts) > 1:
            v.append((_sig(case, F, "executed_twice"), witness_text(case, F, "task %s executed %d times (pids %s)" % (tid, len(starts), [s["pid"] for s in starts]))))
        if name in cancelled_true and starts:
            v.append((_sig(case, F, "ran_after_cancel"), witness_text(case, F, "task %s ran although cancel() returned True" % tid)))
        if d is not None and d["state"] == "result" and not _fut_expected_ok(f):
            v.append((_sig(case, F, "wrong_value"), witness_text(case, F, "future %s: value %r != reference %r" % (name, d.get("value"), f["submit"].get("exp")))))
        if d is not None and d["state"] == "result" and not [e for e in F.tasks.get(tid, {}).get("ends", []) if not e.get("exc")]:
            v.append((_sig(case, F, "fabricated_value"), witness_text(case, F, "future %s has a value but its body never completed" % name)))
    for tid, t in F.tasks.items():
        if tid.startswith("m:") and len(t["starts"]) > 1:
            v.append((_sig(case, F, "map_item_executed_twice"), witness_text(case, F, "map item %s executed %d times" % (tid, len(t["starts"])))))
    for o in F.ops.values():
        c, e = o["call"], o["end"]
        if c and c["op"] == "map" and e is not None:
            if e["k"] == "ret" and not e["r"]["equal"]:
                v.append((_sig(case, F, "map_differs"), witness_text(case, F, "map(chunksize=%s, lens=%s) != list(map(...)): got %s, reference %s" % (c["a"].get("chunksize"), [len(i) for i in c["a"]["iters"]], json.dumps(e["r"]["got"])[:300], json.dumps(e["r"]["ref"])[:300]))))
            elif e["k"] == "exc" and not _has_deaths(F):
                v.append((_sig(case, F, "map_raised", etype=e["exc"]["type"]), witness_text(case, F, "map raised %s: %s" % (e["exc"]["type"], e["exc"]["str"][:300]))))
        if c and c["op"] == "quiesce" and e is not None and e["k"] == "ret" and not _has_deaths(F):
            for nm, s in (e["r"].get("snaps") or {}).items():
                if s and not s.get("snap_err") and not s.get("shutdown") and (s["pending"] or s["running"] or s["work_ids"] or (s.get("queue_sem") is not None and s["queue_sem"] != s["queue_max"])):
                    v.append((_sig(case, F, "bookkeeping_leak"), witness_text(case, F, "executor %s not quiescent after all its futures resolved (5 s settle): %s" % (nm, json.dumps(s)))))
    return v


def _has_deaths(F):
    return bool(worker_deaths(F)) or any(f.get("kind") == "ext_kill" for f in F.faults)


# ------------------------------------------------------------------ C04
def c04(case, F):
    v = []
    if F.outcome not in ("ended", "survivors") or _has_deaths(F):
        return v
    handed = F.handed_out()
    cancelled_true = set()
    for o in F.ops.values():
        c, e = o["call"], o["end"]
        if c and c["op"] == "cancel" and e and e["k"] == "ret" and e["r"].get("cancelled"):
            cancelled_true.add(c["a"]["fut"])
    for name, f in handed.items():
        d = f["done"]
        if d is None:
            continue  # C01's business
        exp = f["submit"].get("exp")
        if d["state"] == "cancelled":
            if name not in cancelled_true:
                v.append((_sig(case, F, "cancelled_without_cancel"), witness_text(case, F, "future %s ended cancelled although no cancel() succeeded on it" % name)))
            continue
        if exp is None or exp[0] == "special":
            continue
        if not _fut_expected_ok(f):
            got = d.get("value") if d["state"] == "result" else (d["exc"]["type"], d["exc"]["args"])
            v.append((_sig(case, F, "sibling_or_own_outcome_wrong", exp=exp[0], got=(d["exc"]["type"] if d["state"] == "exception" else "value")),
                      witness_text(case, F, "future %s (task %s): outcome %r, reference %r" % (name, json.dumps(f["submit"]["spec"]), got, exp))))
            continue
        if exp[0] in ("exc", "unsendable"):
            e = d["exc"]
            if e["cause_type"] != "_RemoteTraceback" or "Traceback" not in (e["cause_str"] or ""):
                v.append((_sig(case, F, "missing_remote_traceback", exp=exp[0]), witness_text(case, F, "future %s: exception %s lacks the remote traceback as __cause__ (cause=%s)" % (name, e["type"], e["cause_type"]))))
    for o in F.ops.values():
        c, e = o["call"], o["end"]
        if c and c["op"] == "quiesce" and e is not None and e["k"] == "ret":
            for nm, s in (e["r"].get("snaps") or {}).items():
                if not s or s.get("snap_err"):
                    continue
                if s.get("broken") is not None:
                    v.append((_sig(case, F, "pool_broken_by_task_failure"), witness_text(case, F, "executor %s flagged broken (%s) by task-level failures only" % (nm, s["broken"]))))
                elif not s.get("shutdown") and (s["pending"] or s["running"] or s["work_ids"] or (s.get("queue_sem") is not None and s["queue_sem"] != s["queue_max"])):
                    v.append((_sig(case, F, "bookkeeping_leak"), witness_text(case, F, "executor %s not quiescent after all futures resolved: %s" % (nm, json.dumps(s)))))
        if c and c["op"] == "submit" and e is not None and e["k"] == "exc" and c["a"].get("fresh"):
            v.append((_sig(case, F, "fresh_submit_failed", etype=e["exc"]["type"]), witness_text(case, F, "a fresh submit after task-level failures raised %s" % e["exc"]["type"])))
    for name, f in handed.items():
        if f["submit"]["spec"].get("fresh") and f["done"] is not None and not _fut_expected_ok(f):
            v.append((_sig(case, F, "fresh_task_failed"), witness_text(case, F, "the fresh task after the failures did not complete normally: %s" % json.dumps(f["done"])[:300])))
    # a raising done-callback must be swallowed: it shows up neither as thread exception nor as changed outcome
    for t in F.thread_exceptions:
        if t["pid"] == F.driver_pid:
            v.append((_sig(case, F, "thread_died", thread=str(t.get("thread"))[:24], etype=t.get("etype")), witness_text(case, F, "a thread of the parent died with %s" % t.get("etype"))))
    return v


# ------------------------------------------------------------------ C05
def c05(case, F):
    """Graceful shutdown drains and leaves nothing behind (no injected deaths)."""
    v = []
    if F.outcome not in ("ended", "survivors") or _has_deaths(F) or driver_ended_by_plan(case, F):
        return v
    handed = F.handed_out()
    cancelled_true = set()
    for o in F.ops.values():
        c, e = o["call"], o["end"]
        if c and c["op"] == "cancel" and e and e["k"] == "ret" and e["r"].get("cancelled"):
            cancelled_true.add(c["a"]["fut"])
    for name, f in handed.items():
        d = f["done"]
        if d is None:
            if F.main_returned and F.final.get("driver_status") == 0:
                v.append((_sig(case, F, "submitted_task_not_delivered"), witness_text(case, F, "future %s submitted before the shutdown never got its result although shutdown completed" % name)))
            continue
        if d["state"] == "cancelled" and name in cancelled_true:
            continue
        if not _fut_expected_ok(f):
            got = d.get("value") if d["state"] == "result" else (d.get("exc") or {}).get("type")
            v.append((_sig(case, F, "drained_result_wrong", got=str(got)[:40]), witness_text(case, F, "future %s: outcome %r, reference %r" % (name, got, f["submit"].get("exp")))))
    for o in F.ops.values():
        c, e = o["call"], o["end"]
        if c is None or e is None or e["k"] != "ret" or not isinstance(e.get("r"), dict):
            continue
        r = e["r"]
        complete = (c["op"] == "shutdown" and c["a"].get("wait", True) is not False) or c["op"] in ("with", "join_mgr")
        if complete and "threads" in r:
            snap = r.get("snap") or {}
            if snap.get("broken") is not None:
                v.append((_sig(case, F, "broken_after_graceful_shutdown"), witness_text(case, F, "pool flagged broken (%s) by a graceful shutdown" % snap["broken"])))
            if any(t.startswith("ExecutorManagerThread") for t in r["threads"]) and _single_executor(case):
                v.append((_sig(case, F, "manager_thread_alive_after_shutdown"), witness_text(case, F, "ExecutorManagerThread still alive when %s returned" % c["op"])))
            if r.get("pids_alive") or r.get("pids_zombie"):
                v.append((_sig(case, F, "workers_left_after_shutdown"), witness_text(case, F, "workers left when %s returned: alive=%s zombie=%s" % (c["op"], r.get("pids_alive"), r.get("pids_zombie")))))
            bad = {p: cde for p, cde in (r.get("exitcodes") or {}).items() if cde not in (0,)}
            if bad:
                v.append((_sig(case, F, "worker_exit_status_nonzero"), witness_text(case, F, "workers did not leave through the clean handshake: exit codes %s" % bad)))
        if c["op"] == "census" and c["a"].get("after_shutdown") and _single_executor(case):
            if any(t.startswith("QueueFeederThread") for t in r.get("threads", [])):
                v.append((_sig(case, F, "feeder_thread_alive_after_grace"), witness_text(case, F, "QueueFeederThread still alive %.1f s after shutdown completed" % c["a"].get("grace", 3.0))))
    for o in F.ops.values():
        c, e = o["call"], o["end"]
        if c and c["op"] == "submit" and c["a"].get("post_shutdown") and e is not None:
            if e["k"] == "ret":
                v.append((_sig(case, F, "submit_accepted_after_shutdown"), witness_text(case, F, "submit() after shutdown returned a future")))
            elif e["exc"]["type"] != "ShutdownExecutorError":
                v.append((_sig(case, F, "submit_after_shutdown_wrong_error", etype=e["exc"]["type"]), witness_text(case, F, "submit() after shutdown raised %s" % e["exc"]["type"])))
    # the management threads end, they do not crash
    for t in F.thread_exceptions:
        if t["pid"] == F.driver_pid and (str(t.get("thread", "")).startswith("ExecutorManagerThread") or str(t.get("thread", "")).startswith("QueueFeederThread")):
            v.append((_sig(case, F, "management_thread_crashed", thread=str(t.get("thread"))[:22], etype=t.get("etype")), witness_text(case, F, "%s died with %s during a graceful shutdown" % (t.get("thread"), t.get("etype")))))
    # clean handshake from the workers' side: none 'died', all reached normal interpreter exit
    for pid, w in F.workers().items():
        if pid not in F.atexit and F.final.get("driver_status") == 0 and F.main_returned and w.get("proc", "").count(":") == 0:
            v.append((_sig(case, F, "worker_without_normal_exit"), witness_text(case, F, "worker pid %s (%s) never reached normal interpreter exit" % (pid, w.get("proc")))))
    surv = [p for p in (F.final.get("survivors") or []) if "popen_loky_posix" in (p.get("cmdline") or "")]
    if surv:
        v.append((_sig(case, F, "workers_survive_tree"), witness_text(case, F, "workers alive after the driver exited: %s" % [p["pid"] for p in surv])))
    return v


def _single_executor(case):
    n = 0
    for th in case["program"].get("threads", []) + [case["program"].get("tail", [])]:
        for o in th:
            if o["op"] == "new":
                n += 1
    return n <= 1


# ------------------------------------------------------------------ C07
def c07(case, F):
    v = []
    if F.outcome not in ("ended", "survivors") or _has_deaths(F) or driver_ended_by_plan(case, F):
        return v
    handed = F.handed_out()
    for name, f in handed.items():
        d = f["done"]
        if d is None:
            continue
        tid = f["submit"]["tid"]
        t = F.tasks.get(tid, {"starts": [], "ends": []})
        if d["state"] == "exception" and d["exc"]["is_cf_broken"]:
            v.append((_sig(case, F, "timeout_reported_as_crash", etype=d["exc"]["type"]), witness_text(case, F, "future %s failed with %s in a history with idle time-outs and no worker death: %s" % (name, d["exc"]["type"], d["exc"]["str"][:300]))))
            continue
        if len(t["starts"]) > 1:
            v.append((_sig(case, F, "executed_twice"), witness_text(case, F, "task %s executed %d times" % (tid, len(t["starts"])))))
        if d["state"] != "cancelled" and not _fut_expected_ok(f):
            v.append((_sig(case, F, "wrong_outcome"), witness_text(case, F, "future %s outcome %s != reference %r" % (name, json.dumps(d)[:200], f["submit"].get("exp")))))
    for name, f in handed.items():
        d = f["done"]
        if d is not None and d["state"] == "result" and f["submit"]["spec"].get("k") == "rendezvous" and not d["value"][2]:
            v.append((_sig(case, F, "missing_worker_not_respawned"), witness_text(case, F, "two dependent tasks submitted across an idle-timeout exit never ran side by side within %.0f s on a pool of max_workers>=2: the worker that timed out was not replaced" % f["submit"]["spec"].get("patience", 15))))
            break
    for tid, t in F.tasks.items():
        if len(t["starts"]) != len(t["ends"]):
            v.append((_sig(case, F, "left_while_holding_task"), witness_text(case, F, "task %s started %d times but ended %d times: a worker left while holding it" % (tid, len(t["starts"]), len(t["ends"])))))
    for o in F.ops.values():
        c, e = o["call"], o["end"]
        if c is None or e is None or e["k"] != "ret" or not isinstance(e.get("r"), dict):
            continue
        snaps = []
        if c["op"] == "quiesce":
            snaps = list((e["r"].get("snaps") or {}).values())
        elif e["r"].get("snap"):
            snaps = [e["r"]["snap"]]
        elif c["op"] == "get_reusable":
            snaps = [e["r"].get("after")]
        for s in snaps:
            if s and s.get("broken") is not None:
                v.append((_sig(case, F, "broken_by_timeout"), witness_text(case, F, "executor flagged broken (%s) although no worker died" % s["broken"])))
        bad = {p: cde for p, cde in (e["r"].get("exitcodes") or {}).items() if cde not in (0, None)}
        if bad:
            v.append((_sig(case, F, "timeout_exit_status_nonzero"), witness_text(case, F, "worker exit codes %s in a history without deaths" % bad)))
    for pid in F.workers():
        if F.worker_exit_path(pid) == "died":
            v.append((_sig(case, F, "unexpected_death"), "internal: death without fault"))
    return v


# ------------------------------------------------------------------ C06
def _tree_children(F):
    kids = {}
    for pid, p in F.procs.items():
        kids.setdefault(p.get("ppid"), set()).add(pid)
    for e in F.h.by("subprocess_spawned"):
        kids.setdefault(e["pid"], set()).add(e["spid"])
    return kids


def _descendants(kids, roots):
    out = set()
    todo = list(roots)
    while todo:
        p = todo.pop()
        for c in kids.get(p, ()):
            if c not in out:
                out.add(c)
                todo.append(c)
    return out


def c06(case, F):
    v = []
    if F.outcome not in ("ended", "survivors") or driver_ended_by_plan(case, F):
        return v
    forced = [o for o in F.ops.values() if o["call"] and o["call"]["a"].get("forced")]
    if not forced or forced[0]["end"] is None:
        return v
    call, end = forced[0]["call"], forced[0]["end"]
    if end["k"] != "ret":
        v.append((_sig(case, F, "forced_shutdown_raised", etype=end["exc"]["type"]), witness_text(case, F, "the forced shutdown call raised %s: %s" % (end["exc"]["type"], end["exc"]["str"][:300]))))
        return v
    # promptness, logically: no endless task ever completed
    for tid, t in F.tasks.items():
        for s in t["starts"]:
            if s.get("kind") == "endless":
                for e in t["ends"]:
                    v.append((_sig(case, F, "waited_for_running_task"), witness_text(case, F, "endless task %s completed: the forced shutdown waited for it" % tid)))
    cancelled_true = set()
    for o in F.ops.values():
        c, e = o["call"], o["end"]
        if c and c["op"] == "cancel" and e and e["k"] == "ret" and e["r"].get("cancelled"):
            cancelled_true.add(c["a"]["fut"])
    for name, f in F.handed_out().items():
        d = f["done"]
        if d is None:
            v.append((_sig(case, F, "unfinished_future_pending"), witness_text(case, F, "future %s still pending after the forced shutdown" % name)))
            continue
        if d["state"] == "cancelled":
            if name not in cancelled_true:
                v.append((_sig(case, F, "cancelled_without_cancel"), witness_text(case, F, "future %s ended cancelled although no cancel() succeeded" % name)))
            continue
        tid = f["submit"]["tid"]
        finished = bool(F.tasks.get(tid, {}).get("ends"))
        if d["state"] == "result":
            if not finished or not _fut_expected_ok(f):
                v.append((_sig(case, F, "fabricated_or_wrong_value"), witness_text(case, F, "future %s: value %r (finished=%s)" % (name, d.get("value"), finished))))
            continue
        e = d["exc"]
        if e["type"] == "ShutdownExecutorError":
            if name in cancelled_true:
                v.append((_sig(case, F, "cancelled_future_failed"), witness_text(case, F, "future %s: cancel() returned True but it failed with ShutdownExecutorError" % name)))
            continue
        if finished and _fut_expected_ok(f):
            continue
        v.append((_sig(case, F, "unfinished_future_wrong_error", etype=e["type"]), witness_text(case, F, "unfinished future %s failed with %s instead of ShutdownExecutorError: %s" % (name, e["type"], e["str"][:200]))))
    # totality: workers reaped, descendants dead, right after the call returned
    r = end["r"]
    ns = r.get("ns") or (r.get("replaced") or {}).get("ns") or []
    state = {p: st for p, st, _pp in ns}
    t_ret = end["t"]
    workers0 = {pid for pid, p in F.procs.items() if p.get("role") == "worker" and p.get("ppid") == F.driver_pid and p["t"] < call["t"]}
    kids = _tree_children(F)
    desc = {d for d in _descendants(kids, workers0) if (d in F.procs and F.procs[d]["t"] < t_ret) or d not in F.procs}
    for w in sorted(workers0):
        if w in state:
            v.append((_sig(case, F, "worker_not_reaped", state=state[w]), witness_text(case, F, "worker pid %d still present (state %s) when the forced shutdown returned" % (w, state[w]))))
    # descendants are not loky's children: SIGKILL delivery is asynchronous, so they are
    # looked for in the snapshot taken after a bounded settle (<= 3 s) following the call
    late = [o["end"] for o in F.ops.values() if o["call"] and o["call"]["op"] == "ns" and o["end"] is not None and o["end"]["k"] == "ret" and o["end"]["t"] >= t_ret]
    state2 = {p: st for p, st, _pp in (late[0]["r"]["ns"] if late else [])}
    for d in sorted(desc):
        if late and d in state2 and state2[d] != "Z":
            state[d] = state2[d]
        else:
            continue
        if d in state and state[d] != "Z":
            v.append((_sig(case, F, "descendant_alive", role=(F.procs.get(d) or {}).get("role", "subprocess")), witness_text(case, F, "descendant pid %d (%s) of a worker still alive (state %s) when the forced shutdown returned" % (d, (F.procs.get(d) or {}).get("argv", "subprocess"), state[d]))))
    surv = {p["pid"] for p in (F.final.get("survivors") or [])}
    left = sorted((workers0 | desc) & surv)
    if left:
        v.append((_sig(case, F, "tree_survives"), witness_text(case, F, "pids %s of the killed executor's tree still alive after the driver exited" % left)))
    return v


# ------------------------------------------------------------------ C08
def _mw_timeline(F):
    tl = []
    for o in F.ops.values():
        c, e = o["call"], o["end"]
        if c is None or c["op"] not in ("new", "get_reusable"):
            continue
        mw = (c["a"].get("kw") or {}).get("max_workers")
        if mw is None:
            continue
        tl.append((c["t"], e["t"] if e is not None else float("inf"), mw))
    return sorted(tl)


def _bound_at(tl, t):
    cands = [mw for (a, b, mw) in tl if a <= t <= b]
    done = [(b, mw) for (a, b, mw) in tl if b <= t]
    if done:
        cands.append(max(done)[1])
    return max(cands) if cands else None


def c08(case, F):
    v = []
    if F.outcome not in ("ended", "survivors") or _has_deaths(F):
        return v
    tl = _mw_timeline(F)
    # upper bound on concurrently executing bodies
    evs = []
    for tid, t in F.tasks.items():
        if "/" in tid:
            continue  # nested sub-tasks belong to another executor
        for s in t["starts"]:
            evs.append((s["t"], 1, tid))
        for e in t["ends"]:
            evs.append((e["t"], -1, tid))
    evs.sort()
    cur = 0
    for t, d, tid in evs:
        cur += d
        b = _bound_at(tl, t)
        if d > 0 and b is not None and cur > b:
            v.append((_sig(case, F, "too_many_concurrent_tasks"), witness_text(case, F, "%d task bodies executing at once at t=%.3f, max_workers in force is %d" % (cur, t, b))))
            break
    for inv in F.invs:
        if inv.get("name") != "nproc":
            continue
        b = _bound_at(tl, inv["t"])
        n = (inv.get("v") or {}).get("n")
        if b is not None and n is not None and n > b:
            v.append((_sig(case, F, "too_many_workers_registered", at="%s:%s" % (inv["pt"][0], inv["pt"][1])), witness_text(case, F, "%d workers registered at %s (t=%.3f) while max_workers in force is %d" % (n, inv["pt"], inv["t"], b))))
            break
    # delivery: every rendezvous batch met
    for name, f in F.handed_out().items():
        if f["submit"]["spec"].get("k") != "rendezvous":
            continue
        d = f["done"]
        if d is None:
            continue
        if d["state"] != "result":
            v.append((_sig(case, F, "rendezvous_task_failed", etype=(d.get("exc") or {}).get("type")), witness_text(case, F, "rendezvous task %s did not complete: %s" % (name, json.dumps(d)[:300]))))
        elif not d["value"][2]:
            spec = f["submit"]["spec"]
            v.append((_sig(case, F, "parallelism_not_delivered"), witness_text(case, F, "on a quiet executor with %d rendezvous tasks pending only %d ever ran simultaneously within %.0f s (max_workers=%d)" % (spec["n"], d["value"][3], spec.get("patience", 20), spec["n"]))))
            break
    return v


# ------------------------------------------------------------------ C09
def _norm_kw(kw):
    kw = kw or {}
    return {
        "context": kw.get("context"),
        "timeout": kw.get("timeout", 10),
        "initializer": json.dumps(kw.get("initializer"), sort_keys=True),
        "env": json.dumps(kw.get("env"), sort_keys=True),
    }


def c09(case, F):
    v = []
    if F.outcome not in ("ended", "survivors"):
        return v
    single = len(case["program"].get("threads", [])) == 1
    ops = sorted((o for o in F.ops.values() if o["call"] and o["call"]["op"] == "get_reusable" and o["end"] is not None), key=lambda o: o["call"]["t"])
    prev_kw = None
    max_id = -1
    for o in ops:
        c, e = o["call"], o["end"]
        kw = c["a"].get("kw") or {}
        if e["k"] != "ret":
            v.append((_sig(case, F, "factory_raised", etype=e["exc"]["type"]), witness_text(case, F, "get_reusable_executor(%s) raised %s: %s" % (json.dumps(kw), e["exc"]["type"], e["exc"]["str"][:300]))))
            prev_kw = None
            continue
        r = e["r"]
        before, after = r.get("before"), r.get("after")
        if after is None or after.get("snap_err"):
            continue
        if single:
            if after.get("max_workers") != kw.get("max_workers"):
                v.append((_sig(case, F, "wrong_max_workers"), witness_text(case, F, "returned executor has _max_workers=%s, requested %s" % (after.get("max_workers"), kw.get("max_workers")))))
            if r["same"] and before and (before.get("broken") is not None or before.get("shutdown")):
                v.append((_sig(case, F, "returned_unhealthy_instance", broken=before.get("broken"), shutdown=before.get("shutdown")), witness_text(case, F, "the factory returned the previous instance although it was broken=%s shutdown=%s when the call began" % (before.get("broken"), before.get("shutdown")))))
            if before is not None and prev_kw is not None and not _has_inflight_death(F, c["t"], e["t"]):
                healthy = before.get("broken") is None and not before.get("shutdown")
                reuse = kw.get("reuse", "auto")
                want_same = healthy and (reuse is True or (reuse == "auto" and _norm_kw(kw) == prev_kw))
                if want_same != r["same"]:
                    v.append((_sig(case, F, "identity_mismatch", want_same=want_same), witness_text(case, F, "reference model: same instance=%s (healthy=%s, reuse=%r, args unchanged=%s) but the factory returned %s" % (want_same, healthy, reuse, _norm_kw(kw) == prev_kw, "the same" if r["same"] else "a new one"))))
            if not r["same"]:
                eid = after.get("executor_id")
                if eid is not None and eid <= max_id:
                    v.append((_sig(case, F, "executor_id_not_increasing"), witness_text(case, F, "fresh instance has executor_id %s <= an earlier id %s" % (eid, max_id))))
                if after.get("timeout") != kw.get("timeout", 10):
                    v.append((_sig(case, F, "fresh_instance_wrong_args"), witness_text(case, F, "fresh instance built with timeout=%s, call asked %s" % (after.get("timeout"), kw.get("timeout", 10)))))
                rep = r.get("replaced")
                if rep and (rep.get("pids_alive") or rep.get("mgr_alive")):
                    v.append((_sig(case, F, "replaced_instance_still_alive", prior_nowait=history_features(case, F)["shutdown_nowait"]), witness_text(case, F, "the replaced instance was not completely shut down when the factory returned: workers alive %s, manager thread alive %s" % (rep.get("pids_alive"), rep.get("mgr_alive")))))
            if after.get("executor_id") is not None:
                max_id = max(max_id, after["executor_id"])
        if after.get("broken") is not None and not _has_inflight_death(F, c["t"] - 0.5, e["t"] + 0.01) and single:
            v.append((_sig(case, F, "returned_broken"), witness_text(case, F, "returned executor is flagged broken (%s) at return" % after.get("broken"))))
        if after.get("shutdown") and single:
            v.append((_sig(case, F, "returned_shut_down"), witness_text(case, F, "returned executor is flagged shut down at return")))
        prev_kw = _norm_kw(kw) if not r["same"] or prev_kw is None else prev_kw
    # a caller that has seen a future of instance X fail with the pool's error must never get X back
    for o in ops:
        c, e = o["call"], o["end"]
        w = c["a"].get("after_failure_of")
        if not w or e["k"] != "ret":
            continue
        fd = (F.futs.get(w) or {}).get("done")
        r = e["r"]
        if fd and fd["state"] == "exception" and fd["exc"]["is_cf_broken"] and fd["t"] < c["t"] and r.get("same"):
            v.append((_sig(case, F, "broken_instance_handed_out_after_failure"), witness_text(case, F, "future %s had already failed with %s when get_reusable_executor was called, yet the factory returned the same instance (flags at call begin: broken=%s shutdown=%s)" % (w, fd["exc"]["type"], (r.get("before") or {}).get("broken"), (r.get("before") or {}).get("shutdown")))))
    # racing callers that vary only max_workers on a healthy pool all get THE singleton
    if not single and case.get("meta", {}).get("gen") == "g_factory_mt" and not _has_deaths(F):
        ids = {}
        for o in ops:
            e = o["end"]
            if e["k"] == "ret" and e["r"].get("after"):
                a = e["r"]["after"]
                ids.setdefault((a.get("id"), a.get("executor_id")), 0)
                ids[(a.get("id"), a.get("executor_id"))] += 1
        if len(ids) > 1:
            v.append((_sig(case, F, "singleton_violated_under_race", n=min(len(ids), 6)), witness_text(case, F, "racing get_reusable_executor calls that only vary max_workers returned %d different executor instances (executor ids %s): the others are orphaned with their workers" % (len(ids), sorted(k[1] for k in ids)))))
    # initializer / env of a fresh instance, seen by its probe task
    if single:
        last_kw = None
        timeline = sorted([(o["call"]["t"], "f", o) for o in ops] + [(f["submit"]["t"], "p", f) for f in F.handed_out().values() if f["submit"]["spec"].get("k") == "probe"], key=lambda x: x[0])
        eff = None
        for t, kind, x in timeline:
            if kind == "f":
                e = x["end"]
                if e["k"] == "ret" and not e["r"]["same"]:
                    eff = x["call"]["a"].get("kw") or {}
                elif e["k"] != "ret":
                    eff = None
            elif eff is not None and x["done"] is not None and x["done"]["state"] == "result":
                obs = x["done"]["value"][2]
                want_tok = (eff.get("initializer") or {}).get("token")
                if obs.get("init") != want_tok:
                    v.append((_sig(case, F, "fresh_instance_wrong_initializer"), witness_text(case, F, "worker of the fresh instance saw init token %r, the call's initializer token is %r" % (obs.get("init"), want_tok))))
                # env= is documented to work with the 'loky' context only
                for k, val in ((eff.get("env") or {}) if eff.get("context") in (None, "loky") else {}).items():
                    if (obs.get("env") or {}).get(k) != val:
                        v.append((_sig(case, F, "fresh_instance_wrong_env"), witness_text(case, F, "worker env %s=%r, call asked %r" % (k, (obs.get("env") or {}).get(k), val))))
    # every caller's tasks complete with reference results (unless it killed the pool itself)
    deaths = _has_deaths(F)
    killed = any((o["call"]["a"].get("kw") or {}).get("kill_workers") for o in ops)
    for name, f in F.handed_out().items():
        d = f["done"]
        if d is None or deaths or killed:
            continue
        if f["submit"]["spec"].get("k") in ("ok", "sleep") and not _fut_expected_ok(f):
            v.append((_sig(case, F, "caller_task_failed", etype=(d.get("exc") or {}).get("type")), witness_text(case, F, "task %s of a caller did not complete with its result: %s" % (name, json.dumps(d)[:300]))))
    return v


def _has_inflight_death(F, t0, t1):
    for d in worker_deaths(F):
        if t0 - 1.0 <= d["t"] <= t1:
            return True
    return False


# ------------------------------------------------------------------ C10
def c10(case, F):
    v = []
    if F.outcome not in ("ended", "survivors"):
        return v
    ops = sorted((o for o in F.ops.values() if o["call"] and o["call"]["op"] == "get_reusable" and o["end"] is not None and o["end"]["k"] == "ret"), key=lambda o: o["call"]["t"])
    deaths = worker_deaths(F)
    for o in ops:
        c, e = o["call"], o["end"]
        r = e["r"]
        if not r.get("same"):
            continue
        before, after = r["before"], r["after"]
        if not before or not after or before.get("snap_err") or after.get("snap_err"):
            continue
        new = (c["a"].get("kw") or {}).get("max_workers")
        if new is None:
            continue
        if before.get("max_workers") == new and not (c["a"].get("retry") and (before.get("timeout") is None or before.get("timeout") >= 50)):
            # nothing to resize - except for the retry of an interrupted resize on a pool whose workers cannot idle out:
            # there the requested count must be reached whatever the attribute said before the call
            continue
        if after.get("max_workers") != new:
            v.append((_sig(case, F, "max_workers_not_updated"), witness_text(case, F, "after the resize _max_workers=%s, requested %s" % (after.get("max_workers"), new))))
        # premise of the worker-count / survivor clause, evaluated on the history
        if not before.get("mgr_started"):
            continue
        t0, t1 = c["t"], e["t"]
        timed_out = any(m["name"] in ("timeout_branch", "memleak_branch") and t0 - 2.0 <= m["t"] <= t1 + 0.05 for ms in F.wmarks.values() for m in ms)
        died = any(t0 - 2.0 <= d["t"] <= t1 + 0.05 for d in deaths) or after.get("broken") is not None or before.get("broken") is not None
        finite = before.get("timeout") is not None and before["timeout"] < 50
        if timed_out or died:
            continue
        if finite and (t1 - t0) > 0.5 * before["timeout"]:
            continue  # a worker's timer may have fired inside the window without a mark yet
        old_alive = set(before.get("alive") or [])
        if len(after.get("pids") or []) != new:
            v.append((_sig(case, F, "wrong_worker_count", finite_timeout=finite), witness_text(case, F, "resize %s -> %s returned with %d registered workers (no time-out or death during the call)" % (len(old_alive), new, len(after.get("pids") or [])))))
        if set(after.get("alive") or []) != set(after.get("pids") or []):
            v.append((_sig(case, F, "dead_worker_registered", finite_timeout=finite), witness_text(case, F, "resize returned with registered workers %s of which only %s are alive" % (after.get("pids"), after.get("alive")))))
        kept = old_alive & set(after.get("pids") or [])
        if len(kept) < min(len(old_alive), new):
            v.append((_sig(case, F, "survivors_restarted", finite_timeout=finite), witness_text(case, F, "resize %d -> %d kept only %d of the previous workers (%s -> %s), expected %d" % (len(old_alive), new, len(kept), sorted(old_alive), after.get("pids"), min(len(old_alive), new)))))
    # workers kept by a resize stay: nobody asked them to leave (stale stop sentinels would make them go)
    for o in F.ops.values():
        c, e = o["call"], o["end"]
        if c and c["op"] == "quiesce" and c["a"].get("after_resize") and e is not None and e["k"] == "ret" and not deaths:
            prev = [x for x in ops if x["end"]["t"] <= c["t"]]
            if not prev:
                continue
            r0 = prev[-1]["end"]
            after = r0["r"].get("after") or {}
            tmo = after.get("timeout")
            snap = (e["r"].get("snaps") or {}).get("e") or {}
            t_call = prev[-1]["call"]["t"]
            racing_timeouts = any(m["name"] in ("timeout_branch", "memleak_branch") and t_call - 2.0 <= m["t"] <= e["t"] for ms in F.wmarks.values() for m in ms)
            if tmo is not None and (e["t"] - r0["t"]) < 0.7 * tmo and not snap.get("snap_err") and not after.get("snap_err") and not racing_timeouts:
                gone = sorted(set(after.get("alive") or []) - set(snap.get("alive") or []))
                timed = [p for p in gone if F.worker_exit_path(p) in ("timeout", "memleak")]
                if gone and not timed:
                    v.append((_sig(case, F, "kept_workers_left_after_resize"), witness_text(case, F, "workers %s were alive when the resize returned and left %.2f s later although their idle timeout is %.1f s and nothing asked them to (exit paths: %s)" % (gone, e["t"] - r0["t"], tmo, [F.worker_exit_path(p) for p in gone]))))
    # work submitted before any resize completes with its own result
    if not deaths:
        for name, f in F.handed_out().items():
            d = f["done"]
            if d is not None and f["submit"]["spec"].get("k") in ("ok", "sleep") and not _fut_expected_ok(f):
                v.append((_sig(case, F, "task_lost_by_resize", etype=(d.get("exc") or {}).get("type")), witness_text(case, F, "task %s did not complete with its own result across a resize: %s" % (name, json.dumps(d)[:300]))))
    return v


# ------------------------------------------------------------------ C19
def _walk_nested(val, parent_depth, limit, out, path, fork_ok_level=None):
    """val = ['nested', tid, {...}] returned by a worker at depth parent_depth+1."""
    if not (isinstance(val, list) and len(val) == 3 and val[0] == "nested"):
        return
    info = val[2]
    d = info.get("depth")
    out["levels"] += 1
    if d != parent_depth + 1:
        out["viol"].append(("depth_not_parent_plus_one", "%s: worker sees depth %r, its creator runs at depth %r" % (path, d, parent_depth)))
    c = info.get("construct")
    spec_fork = info.get("_fork")
    should_ok = (limit <= 0) or (d < limit)
    out["constructs"].append((d, c))
    if c == "ok":
        if not should_ok:
            out["viol"].append(("constructed_beyond_limit", "%s: executor constructed at depth %r with MAX_DEPTH=%r" % (path, d, limit)))
    elif c == "LokyRecursionError":
        if should_ok and not info.get("fork_requested"):
            out["viol"].append(("refused_below_limit", "%s: LokyRecursionError at depth %r with MAX_DEPTH=%r: %s" % (path, d, limit, info.get("construct_msg"))))
    else:
        out["viol"].append(("wrong_error_type", "%s: construction at depth %r failed with %s (%s), not LokyRecursionError" % (path, d, c, info.get("construct_msg"))))
    for item in info.get("sub", []) or []:
        stid, kind = item[0], item[1]
        if kind == "value":
            v = item[2]
            if isinstance(v, list) and v and v[0] == "probe":
                pd = (v[2] or {}).get("depth")
                out["probes"] += 1
                if pd != d + 1:
                    out["viol"].append(("depth_not_parent_plus_one", "%s: task %s sees depth %r on a pool created at depth %r" % (path, stid, pd, d)))
            elif isinstance(v, list) and v and v[0] == "nested":
                _walk_nested(v, d, limit, out, path + ">" + stid)
        elif kind == "exc":
            out["viol"].append(("nested_task_failed", "%s: sub-task %s failed with %s: %s" % (path, stid, item[2], item[3] if len(item) > 3 else "")))


def c19(case, F):
    v = []
    if F.outcome not in ("ended", "survivors"):
        return v
    m = case.get("meta", {})
    maxd = m.get("max_depth")
    limit = 10 if maxd is None else maxd
    out = {"viol": [], "levels": 0, "probes": 0, "constructs": []}
    fork_specs = _fork_tids(case)
    for name, f in F.handed_out().items():
        d = f["done"]
        if d is None:
            continue
        spec = f["submit"]["spec"]
        if d["state"] != "result":
            if spec.get("k") in ("nested", "probe"):
                out["viol"].append(("top_task_failed", "task %s failed: %s" % (name, json.dumps(d.get("exc"))[:300])))
            continue
        val = d["value"]
        if spec.get("k") == "probe":
            out["probes"] += 1
            if (val[2] or {}).get("depth") != 1:
                out["viol"].append(("depth_not_parent_plus_one", "worker of the top-level executor sees depth %r, expected 1" % (val[2] or {}).get("depth")))
        elif spec.get("k") == "nested":
            _mark_fork(val, spec)
            _walk_nested(val, 0, limit, out, name)
    # fork context at depth >= 1 must be refused
    for e in F.h.by("nested_construct"):
        pass
    for name, f in F.handed_out().items():
        d = f["done"]
        if d is None or d["state"] != "result" or f["submit"]["spec"].get("k") != "nested":
            continue
        for path, info, spec in _iter_nested(d["value"], f["submit"]["spec"], name):
            if ((spec.get("kw") or {}).get("context") == "fork" or spec.get("default_method") == "fork") and info.get("construct") == "ok":
                out["viol"].append(("fork_allowed_in_worker", "%s: a fork-context executor was constructed at depth %r" % (path, info.get("depth"))))
    # no process spawned beyond the limit
    if limit > 0:
        for pid, p in F.workers().items():
            lvl = (p.get("proc") or "").count(":") + 1
            if lvl > limit:
                out["viol"].append(("process_spawned_beyond_limit", "worker %s (nesting level %d) was spawned although MAX_DEPTH=%d" % (p.get("proc"), lvl, limit)))
    c19.last = out
    for clause, text in out["viol"]:
        v.append((_sig(case, F, clause, max_depth=maxd), witness_text(case, F, text)))
    return v


def _fork_tids(case):
    return None


def _mark_fork(val, spec):
    """Annotate results with whether that level asked for the fork context (it must then fail)."""
    if not (isinstance(val, list) and len(val) == 3 and val[0] == "nested"):
        return
    info = val[2]
    info["fork_requested"] = (spec.get("kw") or {}).get("context") == "fork" or spec.get("default_method") == "fork"
    subs = spec.get("sub", [])
    for item, sspec in zip(info.get("sub", []) or [], subs):
        if item[1] == "value" and isinstance(item[2], list) and item[2] and item[2][0] == "nested":
            _mark_fork(item[2], sspec)


def _iter_nested(val, spec, path):
    if not (isinstance(val, list) and len(val) == 3 and val[0] == "nested"):
        return
    info = val[2]
    yield path, info, spec
    for item, sspec in zip(info.get("sub", []) or [], spec.get("sub", [])):
        if item[1] == "value" and isinstance(item[2], list) and item[2] and item[2][0] == "nested":
            yield from _iter_nested(item[2], sspec, path + ">" + item[0])


# ------------------------------------------------------------------ C18
def c18(case, F):
    v = []
    if F.outcome not in ("ended", "survivors"):
        return v
    m = case.get("meta", {})
    casedir_markers = ("/events.", "/stacks.")
    # ---- descriptors
    canary_inos = {}
    keep = {}
    for o in F.ops.values():
        c, e = o["call"], o["end"]
        if c is None or e is None or e["k"] != "ret":
            continue
        if c["op"] == "canary":
            for cn in e["r"]["canaries"]:
                canary_inos[tuple(cn["ino"])] = cn
        if c["op"] == "keeplists":
            for pid, fds in e["r"]["keep"].items():
                if isinstance(fds, list):
                    keep[int(pid)] = set(fds)
    for pid, p in F.workers().items():
        if p.get("ppid") != F.driver_pid:
            continue
        for n, (tgt, ino) in (p.get("fds") or {}).items():
            fd = int(n)
            if any(mk in tgt for mk in casedir_markers) or tgt.startswith("/proc/"):
                continue  # the monitor's own files / the listing itself
            if ino is not None and tuple(ino) in canary_inos:
                cn = canary_inos[tuple(ino)]
                v.append((_sig(case, F, "canary_inherited", inheritable=cn["inheritable"], kind=cn["kind"]), witness_text(case, F, "worker pid %d inherited descriptor %d -> %s, which is the parent's canary fd %d (%s, inheritable=%s)" % (pid, fd, tgt, cn["fd"], cn["kind"], cn["inheritable"]))))
                continue
            if fd <= 2:
                continue
            if pid in keep and fd not in keep[pid]:
                v.append((_sig(case, F, "fd_outside_keep_list"), witness_text(case, F, "worker pid %d has descriptor %d -> %s at interpreter start-up, not in its keep-list %s" % (pid, fd, tgt, sorted(keep[pid])))))
    # ---- environment at interpreter start-up
    drv = F.procs.get(F.driver_pid) or {}
    base_env = dict(drv.get("env") or {})
    env_changes = []
    for o in F.ops.values():
        c, e = o["call"], o["end"]
        if c and c["op"] == "setenv" and e is not None and e["k"] == "ret":
            env_changes.append((e["t"], e["r"]["env"]))
    env_changes.sort(key=lambda x: x[0])
    overlay = (m.get("kw") or {}).get("env") or {}
    if base_env:
        for pid, p in F.workers().items():
            if p.get("ppid") != F.driver_pid or "env" not in p:
                continue
            cur = dict(base_env)
            for t, envd in env_changes:
                if t <= p["t"]:
                    cur = dict(envd)
            want = dict(cur)
            want.update(overlay)
            got = p["env"]
            if got != want:
                diff = {k: (got.get(k), want.get(k)) for k in set(got) | set(want) if got.get(k) != want.get(k)}
                v.append((_sig(case, F, "env_mismatch"), witness_text(case, F, "worker pid %d environment at start-up differs from parent's overlaid with env=: {key: (worker, expected)} = %s" % (pid, json.dumps(diff)[:600]))))
    # ---- __main__ not re-run under the default start method
    if m.get("ctx", "loky") == "loky":
        lines = [x for x in F.h.read("main_ran.txt").split() if x.strip()]
        if len(lines) != 1:
            v.append((_sig(case, F, "main_rerun_in_worker"), witness_text(case, F, "the driver script's module-level side effect ran %d times (pids %s) under the default 'loky' start method" % (len(lines), lines))))
    # ---- initializer ran first on every worker that ran a task
    want_tok = ((m.get("kw") or {}).get("initializer") or {}).get("token")
    failed_init_pids = set()
    for e in F.h.by("init_run"):
        pass
    inits = {}
    for e in F.h.by("init_run"):
        inits.setdefault(e["pid"], []).append(e)
    fail_on = set(((m.get("kw") or {}).get("initializer") or {}).get("fail_on") or [])
    for pid, es in inits.items():
        if any(e.get("n") in fail_on for e in es):
            failed_init_pids.add(pid)
    for tid, t in F.tasks.items():
        for s in t["starts"]:
            if "/" in tid:
                continue
            if s.get("init") != want_tok:
                v.append((_sig(case, F, "task_on_uninitialised_worker"), witness_text(case, F, "task %s ran on worker pid %d whose init token is %r, the executor's initargs token is %r" % (tid, s["pid"], s.get("init"), want_tok))))
            if s["pid"] in failed_init_pids:
                v.append((_sig(case, F, "task_on_worker_with_failed_initializer"), witness_text(case, F, "task %s ran on worker pid %d whose initializer had failed" % (tid, s["pid"]))))
    if failed_init_pids:
        # the pool must break: everything unresolved fails with BrokenProcessPool, nothing is left pending
        for name, f in F.handed_out().items():
            d = f["done"]
            if d is None:
                v.append((_sig(case, F, "pending_after_initializer_failure"), witness_text(case, F, "future %s pending although an initializer failed (pids %s)" % (name, sorted(failed_init_pids)))))
        # whether the breakage is *reported* depends on something being affected by it (a failure that
        # lands after the last future resolved and right before a shutdown request is legitimately silent);
        # what is demanded is: no task on that worker (above) and nothing left pending (here).
    # ---- exit status / sentinel of bare processes
    for o in F.ops.values():
        c, e = o["call"], o["end"]
        if c is None or c["op"] != "exitstatus" or e is None or e["k"] != "ret":
            continue
        for r in e["r"]["results"]:
            how, code = r["how"], r["code"]
            if how in ("os_exit", "cexit", "sys_exit"):
                want = code
            elif how == "return":
                want = 0
            elif how == "raise":
                want = 1
            else:
                import signal

                want = -int(getattr(signal, code))
            if r["exitcode"] != want:
                v.append((_sig(case, F, "exit_status_unfaithful", how=how), witness_text(case, F, "child ended by %s(%r): Process.exitcode=%r, expected %r" % (how, code, r["exitcode"], want))))
            if r["sentinel_early"] and r["state_early"] not in (None, "Z"):
                v.append((_sig(case, F, "sentinel_ready_while_alive"), witness_text(case, F, "sentinel of pid %s ready while the process was alive (state %s, age %.3fs)" % (r["pid"], r["state_early"], r["age_early"]))))
            if not r["sentinel_after"]:
                v.append((_sig(case, F, "sentinel_not_ready_after_exit"), witness_text(case, F, "sentinel of pid %s not ready after the process was joined" % r["pid"])))
    return v


# ------------------------------------------------------------------ C20
def _census_key(r, parent_pid=None):
    kids = {}
    for c in r.get("children", []):
        cmd = c["cmd"]
        cls = "loky_tracker" if "loky.backend.resource_tracker" in cmd else "mp_tracker" if "multiprocessing.resource_tracker" in cmd else "worker" if "popen_loky_posix" in cmd else "other"
        k = "%s/%s" % (cls, "Z" if c["state"] == "Z" else "live")
        kids[k] = kids.get(k, 0) + 1
    th = {}
    for t in r.get("threads", []):
        base = t.split("-")[0] if t.startswith("Thread-") else t
        th[base] = th.get(base, 0) + 1
    # the parent's own named semaphores: sem.loky-<pid>-* of other (killed) processes are swept by the
    # tracker when the tree ends and are not parent-side resources
    import re as _re

    mine = [n for n in (r.get("shm") or []) if not (_re.match(r"sem\.loky-(\d+)-", n) and parent_pid is not None and int(_re.match(r"sem\.loky-(\d+)-", n).group(1)) != parent_pid)]
    return {"fds": r.get("fds"), "threads": th, "children": kids, "shm": len(mine)}


def c20(case, F):
    v = []
    if F.outcome not in ("ended", "survivors"):
        return v
    cens = {}
    for o in F.ops.values():
        c, e = o["call"], o["end"]
        if c and c["op"] == "census" and c["a"].get("tag") and e is not None and e["k"] == "ret":
            cens[c["a"]["tag"]] = e["r"]
    if "after_1" not in cens or "after_1+N" not in cens:
        return v
    a, b = _census_key(cens["after_1"], F.driver_pid), _census_key(cens["after_1+N"], F.driver_pid)
    c20.last = (a, b)
    N = case.get("meta", {}).get("N")
    for dim in ("fds", "threads", "children", "shm"):
        if a[dim] != b[dim]:
            detail = ""
            if dim == "fds":
                da, db = cens["after_1"].get("fd_detail", {}), cens["after_1+N"].get("fd_detail", {})
                extra = {k: db[k] for k in db if k not in da}
                detail = " new descriptors: %s" % json.dumps(extra)[:500]
            v.append((_sig(case, F, "leak_" + dim), witness_text(case, F, "repeating the history %s more times changed the %s census: after 1 run %s, after 1+N runs %s.%s" % (N, dim, json.dumps(a[dim]), json.dumps(b[dim]), detail))))
    return v


# ------------------------------------------------------------------ C13
def c13(case, F):
    v = []
    m = case.get("meta", {})
    if F.outcome == "ended":
        left = F.final.get("shm")
        if left:
            v.append((_sig(case, F, "semaphore_outlives_tree", ending=m.get("ending")), witness_text(case, F, "entries left in the (private) /dev/shm after the whole process tree ended (%s): %s" % (m.get("ending"), left))))
    created = {}
    for o in sorted((o for o in F.ops.values() if o["call"] and o["end"] is not None and o["end"]["k"] == "ret"), key=lambda o: o["call"]["t"]):
        c, e = o["call"], o["end"]
        r = e["r"] if isinstance(e.get("r"), dict) else {}
        if c["op"] == "mk":
            # exact names read from the object itself when available (threads create primitives concurrently)
            created[c["a"]["obj"]] = set(r["names"]) if r.get("names") else (set(r.get("shm") or []) - set(r.get("before") or []))
        elif c["op"] == "drop":
            names = created.pop(c["a"]["obj"], set())
            still = names & set(r.get("shm") or [])
            if still:
                v.append((_sig(case, F, "not_unlinked_when_collected"), witness_text(case, F, "object %s was collected but its named semaphores %s are still in /dev/shm" % (c["a"]["obj"], sorted(still)))))
            for other, nm in created.items():
                gone = nm - set(r.get("shm") or [])
                if gone:
                    v.append((_sig(case, F, "unlinked_while_alive"), witness_text(case, F, "dropping %s removed semaphores %s of the live object %s" % (c["a"]["obj"], sorted(gone), other))))
        elif c["op"] == "use_obj":
            names = created.get(c["a"]["obj"], set())
            gone = names - set(r.get("shm") or [])
            if gone:
                v.append((_sig(case, F, "child_copy_unlinked", how=c["a"].get("how")), witness_text(case, F, "a child that received a pickled copy of %s (%s) removed its semaphores %s" % (c["a"]["obj"], c["a"].get("how"), sorted(gone)))))
        elif c["op"] == "shmlist" and not c["a"].get("expect_empty"):
            have = set(r.get("shm") or [])
            for obj, nms in (r.get("live_names") or {}).items():
                gone = sorted(set(nms) - have)
                if gone:
                    v.append((_sig(case, F, "unlinked_while_alive", via="listing"), witness_text(case, F, "named semaphores %s of the live object %s are no longer in /dev/shm" % (gone, obj))))
        elif c["op"] == "shmlist" and c["a"].get("expect_empty"):
            if r.get("shm"):
                v.append((_sig(case, F, "not_unlinked_when_collected", what="all"), witness_text(case, F, "every primitive and executor was released and collected, yet /dev/shm still holds %s" % r.get("shm"))))
    # no 'leaked' report when nothing crashed and the interpreter exited normally
    clean = (not m.get("crash")) and m.get("ending") in ("return", "return_live", "raise", "sys_exit") and not _has_deaths(F) and not F.fired(DEATH_KINDS)
    if clean and F.outcome == "ended":
        err = F.h.read("stderr.txt", 60000)
        if "leaked" in err and "resource_tracker" in err:
            lines = [l for l in err.splitlines() if "leaked" in l or "FileNotFoundError" in l][:4]
            feeder = any(str(x.get("th", "")).startswith("QueueFeederThread") for x in F.h.by("mark") if x.get("name") == "semlock_cleanup") or \
                any(x.get("thr") == "feeder" and x["pt"][1] == "SemLock._cleanup" for x in F.points)
            v.append((_sig(case, F, "leak_reported_for_released_objects", cleanup_ran_in_feeder_thread=feeder), witness_text(case, F, "the tracker reported leaked resources although nothing crashed and the interpreter exited normally:\n" + "\n".join(lines))))
    # exactly one DELETE per created name
    evs = [e for e in (F.final.get("fs_events") or []) if e["dir"] == "/dev/shm"]
    cnt = {}
    for e in evs:
        k = e["name"]
        c = cnt.setdefault(k, [0, 0])
        c[0 if e["ev"] == "create" else 1] += 1
    c13.names = len(cnt)
    for k, (nc, nd) in cnt.items():
        if nd > nc:
            v.append((_sig(case, F, "double_unlink"), witness_text(case, F, "name %s was created %d time(s) but deleted %d time(s)" % (k, nc, nd))))
    return v


# ------------------------------------------------------------------ C12
def _collect(val, key, out):
    if isinstance(val, dict):
        if key in val:
            out.append(val)
        for x in val.values():
            _collect(x, key, out)
    elif isinstance(val, list):
        for x in val:
            _collect(x, key, out)


def c12(case, F):
    v = []
    m = case.get("meta", {})
    tr_ops = sorted((o for o in F.ops.values() if o["call"] and o["call"]["op"] == "tracker" and o["end"] is not None), key=lambda o: o["call"]["t"])
    root_pid = None
    killed_times = []
    for o in tr_ops:
        c, e = o["call"], o["end"]
        if e["k"] != "ret":
            what = c["a"]["what"]
            if e["exc"]["type"] == "KeyboardInterrupt" and any(f.get("kind") == "signal" and f.get("role") == "driver" and c["t"] <= f["t"] <= e["t"] for f in F.faults):
                continue  # the plan interrupted this very call with SIGINT: it may fail, the NEXT tracked operation must work
            v.append((_sig(case, F, "tracked_operation_failed", what=what, etype=e["exc"]["type"]), witness_text(case, F, "tracker operation %s raised %s: %s" % (what, e["exc"]["type"], e["exc"]["str"][:300]))))
            continue
        r = e["r"]
        if root_pid is None:
            root_pid = r.get("tracker_pid")
        if c["a"]["what"] == "kill" and not r.get("skipped"):
            killed_times.append(e["t"])
        if c["a"]["what"] == "signal" and not r.get("skipped") and r.get("tracker_state") in (None, "Z"):
            v.append((_sig(case, F, "tracker_died_on_signal", sig=c["a"]["sig"]), witness_text(case, F, "the tracker (pid %s) died on %s" % (r.get("tracker_pid"), c["a"]["sig"]))))
    # a spawn right after a tracker death: same (relaunched) tracker in parent and child, child's registration outlives the child
    child_files = []
    for o in tr_ops:
        c, e = o["call"], o["end"]
        if c["a"]["what"] != "spawn_probe" or e["k"] != "ret":
            continue
        r = e["r"]
        ch = r.get("child") or {}
        if "error" in ch or r.get("child_exitcode") != 0:
            v.append((_sig(case, F, "child_failed_after_tracker_death"), witness_text(case, F, "a process spawned right after the tracker was killed failed: exit code %s, %s" % (r.get("child_exitcode"), ch.get("error")))))
            continue
        if ch.get("tracker_pid") != r.get("tracker_pid_after_spawn"):
            v.append((_sig(case, F, "member_uses_other_tracker", after_kill=True), witness_text(case, F, "child spawned after a tracker death reports to tracker pid %s, its parent's tracker after the spawn is pid %s" % (ch.get("tracker_pid"), r.get("tracker_pid_after_spawn")))))
        if r.get("tracker_state") in (None, "Z"):
            v.append((_sig(case, F, "tracker_not_relaunched", by="spawn"), witness_text(case, F, "after spawning a process the parent's tracker (pid %s) is not alive" % r.get("tracker_pid_after_spawn"))))
        if c["a"]["name"] not in (r.get("res") or []):
            v.append((_sig(case, F, "resource_removed_while_tree_alive", by="child_exit"), witness_text(case, F, "the file registered by the child (%s) was removed as soon as the child exited, while the root is alive" % c["a"]["name"])))
        child_files.append((c["a"]["name"], e["t"]))
    trackers = sorted((p for p in F.procs.values() if p.get("role") == "tracker"), key=lambda p: p["t"])
    # one tracker for the whole tree (relaunches only after a kill)
    # (after a tracker death every process of the tree that needs one starts its own: the single-tracker
    #  clause is about trees whose tracker was not killed)
    interrupted_launch = any(f.get("kind") == "signal" and f.get("role") == "driver" for f in F.faults)
    # (a launch interrupted by SIGINT leaves a tracker that nobody is connected to: it sees EOF and exits at once; the next operation starts another)
    if not killed_times and len(trackers) > 1 and not interrupted_launch:
        v.append((_sig(case, F, "several_trackers"), witness_text(case, F, "%d loky tracker processes were started in one tree with %d tracker kill(s): %s" % (len(trackers), len(killed_times), [(t["pid"], t["ppid"]) for t in trackers]))))
    # every member reports to the root's tracker (probes taken before any tracker kill)
    t_first_kill = min(killed_times) if killed_times else float("inf")
    for name, f in F.handed_out().items():
        d = f["done"]
        if d is None or d["state"] != "result" or d["t"] > t_first_kill:
            continue
        found = []
        _collect(d["value"], "tracker_pid", found)
        for obs in found:
            if root_pid is not None and obs.get("tracker_pid") != root_pid:
                v.append((_sig(case, F, "member_uses_other_tracker"), witness_text(case, F, "process pid %s at depth %s reports tracker pid %s, the root's tracker is %s" % (obs.get("pid"), obs.get("depth"), obs.get("tracker_pid"), root_pid))))
    c12.probes = sum(1 for f in F.handed_out().values() if f["done"] and f["done"]["state"] == "result")
    # injected signals inside the tracker: it must not die of them
    for f in F.faults:
        if f.get("kind") == "signal" and f.get("role") == "tracker":
            rp = F.reaps.get(f["pid"])
            if rp is not None and rp.get("code") in (-2, -15):
                v.append((_sig(case, F, "tracker_died_on_signal", sig=f.get("sig"), at="%s:%s" % (f["pt"][0], f["pt"][1])), witness_text(case, F, "tracker pid %s died of %s delivered at %s" % (f["pid"], f.get("sig"), f.get("pt")))))
    for t in trackers:
        rp = F.reaps.get(t["pid"])
        if rp is not None and rp.get("code") in (-2, -15):
            v.append((_sig(case, F, "tracker_died_on_signal", sig=str(rp.get("code"))), witness_text(case, F, "tracker pid %s ended with status %s" % (t["pid"], rp.get("code")))))
    # relaunch after SIGKILL: a new tracker exists afterwards
    if killed_times and len(trackers) < 2 and any(o["call"]["t"] > killed_times[0] for o in tr_ops if o["call"]["a"]["what"] in ("mk_sem", "register_file", "ensure")):
        v.append((_sig(case, F, "tracker_not_relaunched"), witness_text(case, F, "the tracker was killed but no new tracker process started for the next tracked operation")))
    # resource lifetime: exists while any member lives; gone after the tree ended
    if F.outcome == "ended":
        res = F.final.get("res") or []
        dels = {e["name"]: e["t"] for e in (F.final.get("fs_events") or []) if e["dir"].endswith("/res") and e["ev"] == "delete"}
        members_end = [r["t"] for pid, r in ((x["rpid"], x) for x in F.reaps.values()) if (F.procs.get(pid) or {}).get("role") in ("driver", "worker")]
        last_member = max(members_end) if members_end else None
        registered = [o["call"]["a"].get("name") for o in tr_ops if o["call"]["a"]["what"] == "register_file" and o["end"]["k"] == "ret"]
        for nm in registered:
            reg_t = [o["end"]["t"] for o in tr_ops if o["call"]["a"].get("name") == nm][0]
            lost = any(k > reg_t - 1e9 and k < reg_t for k in killed_times) and False
            if nm in res:
                # registered with a tracker that was killed later: nobody can clean it (allowed, the warning says so)
                if not any(k > reg_t for k in killed_times):
                    v.append((_sig(case, F, "resource_not_cleaned_at_end_of_life"), witness_text(case, F, "registered file %s still exists after the whole tree and its tracker ended" % nm)))
            elif nm in dels and last_member is not None and dels[nm] < last_member - 0.3:
                v.append((_sig(case, F, "cleanup_before_last_member_gone"), witness_text(case, F, "registered file %s was deleted %.3f s before the last process of the tree was gone" % (nm, last_member - dels[nm]))))
        for o in tr_ops:
            e = o["end"]
            if e["k"] == "ret" and o["call"]["a"].get("final"):
                # files registered after the last tracker death (or in trees without any) must still exist while the root runs
                last_kill = max(killed_times) if killed_times else float("-inf")
                reg_t = {o2["call"]["a"].get("name"): o2["call"]["t"] for o2 in tr_ops if o2["call"]["a"]["what"] == "register_file" and o2["end"]["k"] == "ret"}
                miss = [nm for nm in registered if nm not in (e["r"].get("res") or []) and reg_t.get(nm, 0) > last_kill]
                miss += [nm for nm, t in child_files if nm not in (e["r"].get("res") or []) and not any(k > t for k in killed_times)]
                if miss:
                    v.append((_sig(case, F, "resource_removed_while_tree_alive"), witness_text(case, F, "registered file(s) %s disappeared while the root was still running" % miss)))
    return v
