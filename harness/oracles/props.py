"""Per-property oracle clauses over Facts (see DESIGN section 3 for E/O of each)."""
import json

from .clauses import history_features, witness_text, driver_ended_by_plan

DEATH_KINDS = ("kill", "exit", "cexit")
SHUTDOWN_OPS = ("shutdown", "with", "del")


def _sig(case, F, clause, **kw):
    s = history_features(case, F)
    s["clause"] = clause
    s.update(kw)
    return s


def _fut_expected_ok(f):
    """Does the future's terminal state equal the reference outcome of its task?"""
    d = f["done"]
    s = f["submit"]
    if d is None or s is None:
        return False
    exp = s.get("exp")
    if exp is None:
        return True
    if exp[0] == "value":
        return d["state"] == "result" and d.get("value") == exp[1]
    if exp[0] == "exc":
        if d["state"] != "exception":
            return False
        e = d["exc"]
        return e["type"] == exp[1] and list(e["args"]) == list(exp[2])
    if exp[0] == "unsendable":
        return d["state"] == "exception" and d["exc"]["type"] == exp[1]
    return True  # 'special' outcomes are judged by their own clauses


def expected_code_string(f):
    """How loky names the exit status of a worker that died by fault f."""
    if f.get("kind") in ("kill", "ext_kill") or (f.get("k") == "die" and f.get("how") == "sig"):
        import signal

        name = f.get("sig") or f.get("code")
        n = int(getattr(signal, name))
        return "%s(-%d)" % (name, n)
    code = f.get("code")
    if code is None:
        return None
    return "UNKNOWN(255)" if code == 255 else "EXIT(%d)" % code


# ------------------------------------------------------------------ death facts
def worker_deaths(F):
    """Abrupt deaths applied to workers in this history: injector faults, external
    kills by the driver's chaos op, and die() tasks. Each: dict(pid, t, ann, how)."""
    out = []
    workers = F.workers()
    for f in F.faults:
        if f.get("kind") in DEATH_KINDS and f.get("role") == "worker":
            out.append({"pid": f["pid"], "t": f["t"], "ann": f.get("ann", 0), "src": f, "pt": f.get("pt")})
        elif f.get("kind") == "ext_kill" and f.get("target") in workers and f.get("sig") in ("SIGKILL", "SIGTERM", "SIGSEGV", "SIGABRT"):
            anns = [m for m in F.wmarks.get(f["target"], []) if m["t"] <= f["t"]]
            names = [m["name"] for m in anns]
            ann = 2 if "announced" in names else (1 if "announce" in names else 0)
            out.append({"pid": f["target"], "t": f["t"], "ann": ann, "src": f, "pt": None})
    for e in F.h.by("die"):
        if e["pid"] in workers and e.get("how") != "sysexit":
            out.append({"pid": e["pid"], "t": e["t"], "ann": 0, "src": e, "pt": None})
    return sorted(out, key=lambda d: d["t"])


def first_shutdown_request_t(case, F):
    """Time of the first request after which worker exits are 'by request':
    shutdown()/with-exit/del/replacement by the factory/interpreter exit."""
    ts = []
    for o in F.ops.values():
        c = o["call"]
        if c is None:
            continue
        if c["op"] in ("shutdown", "del"):
            ts.append(c["t"])
        elif c["op"] == "with" and o["end"] is not None:
            ts.append(c["t"])  # conservative: the whole with-block counts
        elif c["op"] == "get_reusable":
            ts.append(c["t"])  # may resize (sentinels) or replace (shutdown)
    if F.program_end is not None:
        ts.append(F.program_end["t"])
    return min(ts) if ts else float("inf")


def sentinel_seen_before(F, pid, t):
    return any(m["name"] == "sentinel_branch" and m["t"] <= t for m in F.wmarks.get(pid, []))


# ------------------------------------------------------------------ C02
def c02(case, F):
    v = []
    if F.outcome not in ("ended", "survivors") or driver_ended_by_plan(case, F):
        return v
    deaths = worker_deaths(F)
    t_shut = first_shutdown_request_t(case, F)
    must = [d for d in deaths if d["ann"] == 0 and d["t"] < t_shut and not sentinel_seen_before(F, d["pid"], d["t"])]
    handed = F.handed_out()
    # (a) no fabricated values, ever: a result needs a completed execution and the reference value
    for name, f in handed.items():
        d = f["done"]
        if d is None:
            continue
        tid = f["submit"]["tid"]
        if d["state"] == "result":
            ends = [e for e in F.tasks.get(tid, {}).get("ends", []) if not e.get("exc")]
            if not ends:
                v.append((_sig(case, F, "fabricated_value"), witness_text(case, F, "future %s holds a value although its task body never completed: %r" % (name, d.get("value")))))
            elif not _fut_expected_ok(f):
                v.append((_sig(case, F, "wrong_value"), witness_text(case, F, "future %s: value %r != reference %r" % (name, d.get("value"), f["submit"].get("exp")))))
        if len(f["dones"]) > 1:
            v.append((_sig(case, F, "outcome_changed"), witness_text(case, F, "future %s reported %d terminal states" % (name, len(f["dones"])))))
    # unpickling failures (either direction) -> BrokenProcessPool with the remote traceback
    for name, f in handed.items():
        exp = (f["submit"] or {}).get("exp")
        d = f["done"]
        if exp and exp[0] == "special" and exp[1] == "breaks_pool" and d is not None:
            if d["state"] == "result":
                v.append((_sig(case, F, "breaking_task_got_value"), witness_text(case, F, "future %s of a pool-breaking task resolved with a value %r" % (name, d.get("value")))))
    if not must:
        return v
    d0 = must[0]
    # (b) every future unresolved at the death, or handed out later, fails with the pool's BrokenProcessPool
    affected = []
    for name, f in handed.items():
        d = f["done"]
        if d is None:
            v.append((_sig(case, F, "pending_after_death"), witness_text(case, F, "future %s still pending at the end although worker pid %s died unannounced at %s" % (name, d0["pid"], d0.get("pt")))))
            continue
        if d["t"] < d0["t"]:
            continue
        affected.append(name)
        if d["state"] == "cancelled":
            continue
        if d["state"] == "result":
            continue  # completed before the breakage was processed: allowed iff genuine (checked above)
        e = d["exc"]
        if e["is_cf_broken"]:
            if e["type"] == "TerminatedWorkerError":
                want = expected_code_string(d0["src"])
                codes = [expected_code_string(x["src"]) for x in must]
                if want and not any(c and c in e["str"] for c in codes):
                    v.append((_sig(case, F, "exit_code_not_named"), witness_text(case, F, "TerminatedWorkerError does not name the exit status %s of the dead worker: %s" % (want, e["str"][:400]))))
            continue
        if _fut_expected_ok(f):
            continue  # its own task-level outcome, produced before the breakage was processed
        v.append((_sig(case, F, "wrong_exception_after_death", etype=e["type"]), witness_text(case, F, "future %s failed with %s(%r) instead of BrokenProcessPool/TerminatedWorkerError" % (name, e["type"], e["args"]))))
    # (c) submits issued after the death: raise the same error, or hand out a future that fails with it
    for o in F.ops.values():
        c, e = o["call"], o["end"]
        if c is None or c["op"] != "submit" or c["t"] < d0["t"] or e is None:
            continue
        if c["t"] > t_shut:
            continue
        if e["k"] == "exc" and not e["exc"]["is_cf_broken"] and e["exc"]["type"] != "ShutdownExecutorError":
            v.append((_sig(case, F, "submit_after_death_wrong_error", etype=e["exc"]["type"]), witness_text(case, F, "submit after the death raised %s, not the pool's BrokenProcessPool" % e["exc"]["type"])))
    # once a future has been failed with the pool's error, every later submit on that executor raises it
    broken_done = sorted(d["t"] for d in (f["done"] for f in handed.values()) if d is not None and d["state"] == "exception" and d["exc"]["is_cf_broken"])
    if broken_done and _single_executor(case) and not any(o["call"] and o["call"]["op"] == "get_reusable" for o in F.ops.values()):
        t_b = broken_done[0]
        for o in F.ops.values():
            c, e = o["call"], o["end"]
            if c is None or c["op"] != "submit" or c["t"] <= t_b or e is None:
                continue
            if e["k"] == "ret":
                v.append((_sig(case, F, "submit_accepted_after_break"), witness_text(case, F, "submit() returned a future although a future of this executor had already failed with BrokenProcessPool")))
            elif not e["exc"]["is_cf_broken"]:
                v.append((_sig(case, F, "submit_after_break_wrong_error", etype=e["exc"]["type"]), witness_text(case, F, "submit() after the breakage raised %s" % e["exc"]["type"])))
    # (d) flag set once something was affected; all workers gone and reaped
    snaps = []
    for o in F.ops.values():
        e = o["end"]
        if e is not None and e["k"] == "ret" and isinstance(e.get("r"), dict) and e["r"].get("snap") and o["call"]["op"] in ("shutdown", "with", "join_mgr"):
            snaps.append(e)
    for e in snaps:
        r = e["r"]
        if e["t"] < d0["t"]:
            continue
        if broken_done and broken_done[0] < e["t"] and r["snap"].get("broken") is None and not r["snap"].get("snap_err") and _single_executor(case):
            v.append((_sig(case, F, "not_flagged_broken"), witness_text(case, F, "executor not flagged broken although futures were failed with BrokenProcessPool")))
        if r.get("pids_alive") or r.get("pids_zombie"):
            waited = o_wait(F, e)
            if waited:
                v.append((_sig(case, F, "workers_left_after_break"), witness_text(case, F, "after shutdown of the broken executor returned: alive=%s zombies=%s" % (r.get("pids_alive"), r.get("pids_zombie")))))
    surv = [p for p in (F.final.get("survivors") or []) if "popen_loky_posix" in (p.get("cmdline") or "")]
    if surv:
        v.append((_sig(case, F, "workers_survive_tree"), witness_text(case, F, "worker processes still alive after the driver exited: %s" % [(p["pid"], p.get("state")) for p in surv])))
    return v


def o_wait(F, end_rec):
    c = F.ops[end_rec["oid"]]["call"]
    if c["op"] == "shutdown":
        return c["a"].get("wait", True) is not False
    return True


# ------------------------------------------------------------------ C03
def c03(case, F):
    v = []
    if F.outcome not in ("ended", "survivors"):
        return v
    handed = F.handed_out()
    cancelled_true = set()
    for o in F.ops.values():
        c, e = o["call"], o["end"]
        if c and c["op"] == "cancel" and e and e["k"] == "ret" and e["r"].get("cancelled"):
            cancelled_true.add(c["a"]["fut"])
    for name, f in handed.items():
        d = f["done"]
        tid = f["submit"]["tid"]
        starts = F.tasks.get(tid, {}).get("starts", [])
        if len(starts) > 1:
            v.append((_sig(case, F, "executed_twice"), witness_text(case, F, "task %s executed %d times (pids %s)" % (tid, len(starts), [s["pid"] for s in starts]))))
        if name in cancelled_true and starts:
            v.append((_sig(case, F, "ran_after_cancel"), witness_text(case, F, "task %s ran although cancel() returned True" % tid)))
        if d is not None and d["state"] == "result" and not _fut_expected_ok(f):
            v.append((_sig(case, F, "wrong_value"), witness_text(case, F, "future %s: value %r != reference %r" % (name, d.get("value"), f["submit"].get("exp")))))
        if d is not None and d["state"] == "result" and not [e for e in F.tasks.get(tid, {}).get("ends", []) if not e.get("exc")]:
            v.append((_sig(case, F, "fabricated_value"), witness_text(case, F, "future %s has a value but its body never completed" % name)))
    for tid, t in F.tasks.items():
        if tid.startswith("m:") and len(t["starts"]) > 1:
            v.append((_sig(case, F, "map_item_executed_twice"), witness_text(case, F, "map item %s executed %d times" % (tid, len(t["starts"])))))
    for o in F.ops.values():
        c, e = o["call"], o["end"]
        if c and c["op"] == "map" and e is not None:
            if e["k"] == "ret" and not e["r"]["equal"]:
                v.append((_sig(case, F, "map_differs"), witness_text(case, F, "map(chunksize=%s, lens=%s) != list(map(...)): got %s, reference %s" % (c["a"].get("chunksize"), [len(i) for i in c["a"]["iters"]], json.dumps(e["r"]["got"])[:300], json.dumps(e["r"]["ref"])[:300]))))
            elif e["k"] == "exc" and not _has_deaths(F):
                v.append((_sig(case, F, "map_raised", etype=e["exc"]["type"]), witness_text(case, F, "map raised %s: %s" % (e["exc"]["type"], e["exc"]["str"][:300]))))
        if c and c["op"] == "quiesce" and e is not None and e["k"] == "ret" and not _has_deaths(F):
            for nm, s in (e["r"].get("snaps") or {}).items():
                if s and not s.get("snap_err") and not s.get("shutdown") and (s["pending"] or s["running"] or s["work_ids"] or (s.get("queue_sem") is not None and s["queue_sem"] != s["queue_max"])):
                    v.append((_sig(case, F, "bookkeeping_leak"), witness_text(case, F, "executor %s not quiescent after all its futures resolved (5 s settle): %s" % (nm, json.dumps(s)))))
    return v


def _has_deaths(F):
    return bool(worker_deaths(F)) or any(f.get("kind") == "ext_kill" for f in F.faults)


# ------------------------------------------------------------------ C04
def c04(case, F):
    v = []
    if F.outcome not in ("ended", "survivors") or _has_deaths(F):
        return v
    handed = F.handed_out()
    cancelled_true = set()
    for o in F.ops.values():
        c, e = o["call"], o["end"]
        if c and c["op"] == "cancel" and e and e["k"] == "ret" and e["r"].get("cancelled"):
            cancelled_true.add(c["a"]["fut"])
    for name, f in handed.items():
        d = f["done"]
        if d is None:
            continue  # C01's business
        exp = f["submit"].get("exp")
        if d["state"] == "cancelled":
            if name not in cancelled_true:
                v.append((_sig(case, F, "cancelled_without_cancel"), witness_text(case, F, "future %s ended cancelled although no cancel() succeeded on it" % name)))
            continue
        if exp is None or exp[0] == "special":
            continue
        if not _fut_expected_ok(f):
            got = d.get("value") if d["state"] == "result" else (d["exc"]["type"], d["exc"]["args"])
            v.append((_sig(case, F, "sibling_or_own_outcome_wrong", exp=exp[0], got=(d["exc"]["type"] if d["state"] == "exception" else "value")),
                      witness_text(case, F, "future %s (task %s): outcome %r, reference %r" % (name, json.dumps(f["submit"]["spec"]), got, exp))))
            continue
        if exp[0] in ("exc", "unsendable"):
            e = d["exc"]
            if e["cause_type"] != "_RemoteTraceback" or "Traceback" not in (e["cause_str"] or ""):
                v.append((_sig(case, F, "missing_remote_traceback", exp=exp[0]), witness_text(case, F, "future %s: exception %s lacks the remote traceback as __cause__ (cause=%s)" % (name, e["type"], e["cause_type"]))))
    for o in F.ops.values():
        c, e = o["call"], o["end"]
        if c and c["op"] == "quiesce" and e is not None and e["k"] == "ret":
            for nm, s in (e["r"].get("snaps") or {}).items():
                if not s or s.get("snap_err"):
                    continue
                if s.get("broken") is not None:
                    v.append((_sig(case, F, "pool_broken_by_task_failure"), witness_text(case, F, "executor %s flagged broken (%s) by task-level failures only" % (nm, s["broken"]))))
                elif not s.get("shutdown") and (s["pending"] or s["running"] or s["work_ids"] or (s.get("queue_sem") is not None and s["queue_sem"] != s["queue_max"])):
                    v.append((_sig(case, F, "bookkeeping_leak"), witness_text(case, F, "executor %s not quiescent after all futures resolved: %s" % (nm, json.dumps(s)))))
        if c and c["op"] == "submit" and e is not None and e["k"] == "exc" and c["a"].get("fresh"):
            v.append((_sig(case, F, "fresh_submit_failed", etype=e["exc"]["type"]), witness_text(case, F, "a fresh submit after task-level failures raised %s" % e["exc"]["type"])))
    for name, f in handed.items():
        if f["submit"]["spec"].get("fresh") and f["done"] is not None and not _fut_expected_ok(f):
            v.append((_sig(case, F, "fresh_task_failed"), witness_text(case, F, "the fresh task after the failures did not complete normally: %s" % json.dumps(f["done"])[:300])))
    # a raising done-callback must be swallowed: it shows up neither as thread exception nor as changed outcome
    for t in F.thread_exceptions:
        if t["pid"] == F.driver_pid:
            v.append((_sig(case, F, "thread_died", thread=str(t.get("thread"))[:24], etype=t.get("etype")), witness_text(case, F, "a thread of the parent died with %s" % t.get("etype"))))
    return v


# ------------------------------------------------------------------ C05
def c05(case, F):
    """Graceful shutdown drains and leaves nothing behind (no injected deaths)."""
    v = []
    if F.outcome not in ("ended", "survivors") or _has_deaths(F) or driver_ended_by_plan(case, F):
        return v
    handed = F.handed_out()
    cancelled_true = set()
    for o in F.ops.values():
        c, e = o["call"], o["end"]
        if c and c["op"] == "cancel" and e and e["k"] == "ret" and e["r"].get("cancelled"):
            cancelled_true.add(c["a"]["fut"])
    for name, f in handed.items():
        d = f["done"]
        if d is None:
            if F.main_returned and F.final.get("driver_status") == 0:
                v.append((_sig(case, F, "submitted_task_not_delivered"), witness_text(case, F, "future %s submitted before the shutdown never got its result although shutdown completed" % name)))
            continue
        if d["state"] == "cancelled" and name in cancelled_true:
            continue
        if not _fut_expected_ok(f):
            got = d.get("value") if d["state"] == "result" else (d.get("exc") or {}).get("type")
            v.append((_sig(case, F, "drained_result_wrong", got=str(got)[:40]), witness_text(case, F, "future %s: outcome %r, reference %r" % (name, got, f["submit"].get("exp")))))
    for o in F.ops.values():
        c, e = o["call"], o["end"]
        if c is None or e is None or e["k"] != "ret" or not isinstance(e.get("r"), dict):
            continue
        r = e["r"]
        complete = (c["op"] == "shutdown" and c["a"].get("wait", True) is not False) or c["op"] in ("with", "join_mgr")
        if complete and "threads" in r:
            snap = r.get("snap") or {}
            if snap.get("broken") is not None:
                v.append((_sig(case, F, "broken_after_graceful_shutdown"), witness_text(case, F, "pool flagged broken (%s) by a graceful shutdown" % snap["broken"])))
            if any(t.startswith("ExecutorManagerThread") for t in r["threads"]) and _single_executor(case):
                v.append((_sig(case, F, "manager_thread_alive_after_shutdown"), witness_text(case, F, "ExecutorManagerThread still alive when %s returned" % c["op"])))
            if r.get("pids_alive") or r.get("pids_zombie"):
                v.append((_sig(case, F, "workers_left_after_shutdown"), witness_text(case, F, "workers left when %s returned: alive=%s zombie=%s" % (c["op"], r.get("pids_alive"), r.get("pids_zombie")))))
            bad = {p: cde for p, cde in (r.get("exitcodes") or {}).items() if cde not in (0,)}
            if bad:
                v.append((_sig(case, F, "worker_exit_status_nonzero"), witness_text(case, F, "workers did not leave through the clean handshake: exit codes %s" % bad)))
        if c["op"] == "census" and c["a"].get("after_shutdown") and _single_executor(case):
            if any(t.startswith("QueueFeederThread") for t in r.get("threads", [])):
                v.append((_sig(case, F, "feeder_thread_alive_after_grace"), witness_text(case, F, "QueueFeederThread still alive %.1f s after shutdown completed" % c["a"].get("grace", 3.0))))
    for o in F.ops.values():
        c, e = o["call"], o["end"]
        if c and c["op"] == "submit" and c["a"].get("post_shutdown") and e is not None:
            if e["k"] == "ret":
                v.append((_sig(case, F, "submit_accepted_after_shutdown"), witness_text(case, F, "submit() after shutdown returned a future")))
            elif e["exc"]["type"] != "ShutdownExecutorError":
                v.append((_sig(case, F, "submit_after_shutdown_wrong_error", etype=e["exc"]["type"]), witness_text(case, F, "submit() after shutdown raised %s" % e["exc"]["type"])))
    # clean handshake from the workers' side: none 'died', all reached normal interpreter exit
    for pid, w in F.workers().items():
        if pid not in F.atexit and F.final.get("driver_status") == 0 and F.main_returned and w.get("proc", "").count(":") == 0:
            v.append((_sig(case, F, "worker_without_normal_exit"), witness_text(case, F, "worker pid %s (%s) never reached normal interpreter exit" % (pid, w.get("proc")))))
    surv = [p for p in (F.final.get("survivors") or []) if "popen_loky_posix" in (p.get("cmdline") or "")]
    if surv:
        v.append((_sig(case, F, "workers_survive_tree"), witness_text(case, F, "workers alive after the driver exited: %s" % [p["pid"] for p in surv])))
    return v


def _single_executor(case):
    n = 0
    for th in case["program"].get("threads", []) + [case["program"].get("tail", [])]:
        for o in th:
            if o["op"] == "new":
                n += 1
    return n <= 1


# ------------------------------------------------------------------ C07
def c07(case, F):
    v = []
    if F.outcome not in ("ended", "survivors") or _has_deaths(F) or driver_ended_by_plan(case, F):
        return v
    handed = F.handed_out()
    for name, f in handed.items():
        d = f["done"]
        if d is None:
            continue
        tid = f["submit"]["tid"]
        t = F.tasks.get(tid, {"starts": [], "ends": []})
        if d["state"] == "exception" and d["exc"]["is_cf_broken"]:
            v.append((_sig(case, F, "timeout_reported_as_crash", etype=d["exc"]["type"]), witness_text(case, F, "future %s failed with %s in a history with idle time-outs and no worker death: %s" % (name, d["exc"]["type"], d["exc"]["str"][:300]))))
            continue
        if len(t["starts"]) > 1:
            v.append((_sig(case, F, "executed_twice"), witness_text(case, F, "task %s executed %d times" % (tid, len(t["starts"])))))
        if d["state"] != "cancelled" and not _fut_expected_ok(f):
            v.append((_sig(case, F, "wrong_outcome"), witness_text(case, F, "future %s outcome %s != reference %r" % (name, json.dumps(d)[:200], f["submit"].get("exp")))))
    for tid, t in F.tasks.items():
        if len(t["starts"]) != len(t["ends"]):
            v.append((_sig(case, F, "left_while_holding_task"), witness_text(case, F, "task %s started %d times but ended %d times: a worker left while holding it" % (tid, len(t["starts"]), len(t["ends"])))))
    for o in F.ops.values():
        c, e = o["call"], o["end"]
        if c is None or e is None or e["k"] != "ret" or not isinstance(e.get("r"), dict):
            continue
        snaps = []
        if c["op"] == "quiesce":
            snaps = list((e["r"].get("snaps") or {}).values())
        elif e["r"].get("snap"):
            snaps = [e["r"]["snap"]]
        elif c["op"] == "get_reusable":
            snaps = [e["r"].get("after")]
        for s in snaps:
            if s and s.get("broken") is not None:
                v.append((_sig(case, F, "broken_by_timeout"), witness_text(case, F, "executor flagged broken (%s) although no worker died" % s["broken"])))
        bad = {p: cde for p, cde in (e["r"].get("exitcodes") or {}).items() if cde not in (0, None)}
        if bad:
            v.append((_sig(case, F, "timeout_exit_status_nonzero"), witness_text(case, F, "worker exit codes %s in a history without deaths" % bad)))
    for pid in F.workers():
        if F.worker_exit_path(pid) == "died":
            v.append((_sig(case, F, "unexpected_death"), "internal: death without fault"))
    return v
