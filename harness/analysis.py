"""History -> structured facts shared by the oracles (no verdicts here)."""
import re


class Facts:
    def __init__(self, hist):
        self.h = hist
        self.final = hist.final or {}
        self.outcome = hist.outcome
        self.driver_pid = self.final.get("driver_pid")
        self.ops = {}
        self.futs = {}
        self.faults = []
        self.fault_ends = {}
        self.tasks = {}
        self.procs = {}
        self.reaps = {}
        self.thread_exceptions = []
        self.unraisables = []
        self.uncaught = []
        self.warnings = []
        self.wmarks = {}
        self.invs = []
        self.program_end = None
        self.resolved = set()
        self.main_returned = False
        self.atexit = {}
        self.points = []
        for e in hist.events:
            k = e.get("k")
            if k == "call":
                self.ops[e["oid"]] = {"call": e, "end": None}
            elif k in ("ret", "exc"):
                o = self.ops.setdefault(e["oid"], {"call": None, "end": None})
                o["end"] = e
            elif k == "submit_call":
                self.futs[e["fut"]] = {"submit": e, "done": None, "dones": []}
            elif k == "fut_resolved":
                self.resolved.add(e["fut"])
            elif k == "fut_done":
                f = self.futs.setdefault(e["fut"], {"submit": None, "done": None, "dones": []})
                f["dones"].append(e)
                if f["done"] is None:
                    f["done"] = e
            elif k == "fault":
                self.faults.append(e)
            elif k == "fault_end":
                self.fault_ends[e.get("rule")] = e
            elif k == "task_start":
                self.tasks.setdefault(e["tid"], {"starts": [], "ends": []})["starts"].append(e)
            elif k == "task_end":
                self.tasks.setdefault(e["tid"], {"starts": [], "ends": []})["ends"].append(e)
            elif k == "proc_start":
                self.procs[e["pid"]] = e
            elif k == "reap":
                self.reaps[e["rpid"]] = e
            elif k == "thread_exception":
                self.thread_exceptions.append(e)
            elif k == "unraisable":
                self.unraisables.append(e)
            elif k == "uncaught":
                self.uncaught.append(e)
            elif k == "warning":
                self.warnings.append(e)
            elif k == "wmark":
                self.wmarks.setdefault(e["pid"], []).append(e)
            elif k == "inv":
                self.invs.append(e)
            elif k == "program_end":
                self.program_end = e
            elif k == "main_returned":
                self.main_returned = True
            elif k == "proc_atexit":
                self.atexit[e["pid"]] = e
            elif k == "pt":
                self.points.append(e)

    # ---------------------------------------------------------------- helpers
    def op_returned(self, oid):
        o = self.ops.get(oid)
        return bool(o and o["end"] is not None)

    def open_ops(self):
        return [oid for oid, o in self.ops.items() if o["end"] is None]

    def handed_out(self):
        """Futures whose submit returned (the client holds them)."""
        out = {}
        for name, f in self.futs.items():
            s = f["submit"]
            if s is None:
                continue
            o = self.ops.get(s["oid"])
            if o and o["end"] is not None and o["end"]["k"] == "ret":
                out[name] = f
        return out

    def undone(self):
        und = [n for n, f in self.handed_out().items() if f["done"] is None and n not in self.resolved]
        pe = self.program_end
        if pe is not None and und:
            # the driver's own record at the end of the program (Future.done() of every future it holds): a future that was
            # done there is resolved even if the record written by its done-callback is missing (the callback can be cut by
            # interpreter exit when it runs in a daemon thread that the injector is delaying)
            still = set(pe.get("undone") or [])
            known_at_end = {n for n, f in self.handed_out().items() if f["submit"] and f["submit"].get("t", 0) <= pe["t"]}
            und = [n for n in und if n in still or n not in known_at_end]
        return und

    def workers(self):
        return {pid: p for pid, p in self.procs.items() if p.get("role") == "worker"}

    def fired(self, kinds=None):
        return [f for f in self.faults if kinds is None or f.get("kind") in kinds]

    def worker_exit_path(self, pid):
        """Classification of how a worker left, from its own line events."""
        names = [m["name"] for m in self.wmarks.get(pid, [])]
        died = [f for f in self.faults if f["pid"] == pid and f.get("kind") in ("kill", "exit", "cexit")]
        if died:
            return "died"
        if "memleak_branch" in names:
            return "memleak"
        if "timeout_branch" in names and "announce" in names:
            # the last branch mark before the announcement decides
            last = None
            for n in names:
                if n in ("timeout_branch", "sentinel_branch", "memleak_branch"):
                    last = n
                if n == "announce":
                    break
            return {"timeout_branch": "timeout", "sentinel_branch": "sentinel"}.get(last, "unknown")
        if "sentinel_branch" in names:
            return "sentinel"
        return "unknown"

    # ---------------------------------------------------------------- stall witness
    def stall_signature(self):
        """Where each thread of the driver is, from the faulthandler dump taken
        at the stall. Threads are classified by their outermost loky frame."""
        st = self.final.get("stall")
        if not st:
            return None
        stacks = self.h.stacks()
        sig = {"driver_alive": st.get("driver_alive")}
        txt = stacks.get("stacks.%s.txt" % self.driver_pid, "")
        threads = parse_faulthandler(txt)
        roles = {}
        import linecache as _lc

        sig["mgr_blocked_on_management_lock"] = False
        sig["user_blocked_on_management_lock"] = None
        for frames in threads:
            role, inner = classify_thread(frames)
            roles.setdefault(role, []).append(inner)
            if role == "mgr" and len(frames) >= 2 and frames[0][0].endswith("loky/backend/synchronize.py") and frames[0][2] in ("__enter__", "acquire"):
                if "processes_management_lock" in _lc.getline(frames[1][0], frames[1][1]):
                    sig["mgr_blocked_on_management_lock"] = True
                    sig["broken_path"] = any(fr[2] == "terminate_broken" for fr in frames)
            if role == "user" and len(frames) >= 2 and frames[0][0].endswith("loky/backend/synchronize.py") and frames[0][2] in ("__enter__", "acquire"):
                if "processes_management_lock" in _lc.getline(frames[1][0], frames[1][1]):
                    # a client thread waits for the cross-process management lock (which only a worker in its time-out branch,
                    # a spawning submit or a resize can hold)
                    sig["user_blocked_on_management_lock"] = frames[1][2]
        # the manager thread runs a future's done-callbacks and is stuck inside one of them (e.g. a callback calling submit())
        sig["mgr_in_done_callback"] = any(classify_thread(fr)[0] == "mgr" and any(f[2] == "_invoke_callbacks" for f in fr) for fr in threads)
        sig["mgr_in"] = roles.get("mgr", [None])[0]
        sig["feeder_in"] = roles.get("feeder", [None])[0]
        users = [u for u in roles.get("user", []) if u]
        sig["user_in"] = sorted(set(users))
        sig["mgr_alive"] = "mgr" in roles
        sig["n_threads"] = len(threads)
        # workers: is a live one blocked acquiring the result queue's write lock?
        import linecache

        blocked = 0
        wstate = []
        for wpid in self.workers():
            wt = stacks.get("stacks.%s.txt" % wpid)
            if not wt:
                continue
            for frames in parse_faulthandler(wt):
                if not frames:
                    continue
                fn, ln, func = frames[0]
                src = linecache.getline(fn, ln)
                where = "%s:%s" % (fn.split("/loky/")[-1] if "/loky/" in fn else fn.split("/")[-1], func)
                wstate.append(where)
                # innermost frames: SemLock.__enter__ called from `with self._wlock:` in SimpleQueue.put
                for fn2, ln2, func2 in frames[:2]:
                    if fn2.endswith("loky/backend/queues.py") and func2 == "put" and "_wlock" in linecache.getline(fn2, ln2):
                        if fn.endswith("loky/backend/synchronize.py") and func == "__enter__" or fn2 == fn:
                            blocked += 1
                            break
        sig["worker_blocked_on_result_wlock"] = blocked > 0
        # a live worker waiting for the call queue's read lock (multiprocessing.queues.Queue.get: `self._rlock.acquire(...)`)
        rl = 0
        for wpid in self.workers():
            wt = stacks.get("stacks.%s.txt" % wpid)
            for frames in parse_faulthandler(wt or ""):
                if frames and frames[0][0].endswith("multiprocessing/queues.py") and frames[0][2] == "get" and "_rlock" in linecache.getline(frames[0][0], frames[0][1]):
                    rl += 1
        sig["worker_waiting_for_call_rlock"] = rl > 0
        live = 0
        for pr in st.get("procs", []):
            cmd = pr.get("cmdline") or ""
            if pr.get("state") not in (None, "Z") and ("popen_loky_posix" in cmd or "multiprocessing.spawn" in cmd or "multiprocessing.forkserver" in cmd or (pr.get("ppid") == self.driver_pid and "resource_tracker" not in cmd and "lv_driver" in cmd)):
                live += 1
        sig["no_live_worker"] = live == 0
        sig["workers_in"] = sorted(set(wstate))
        busy = [p for p in st.get("procs", []) if p.get("pid") == self.driver_pid]
        sig["driver_cpu_ticks"] = busy[0].get("cpu_ticks_in_1s") if busy else None
        return sig


_FRAME = re.compile(r'^\s+File "([^"]+)", line (\d+) in (.+)$')


def parse_faulthandler(txt):
    threads = []
    cur = None
    for line in txt.splitlines():
        if line.startswith("Thread ") or line.startswith("Current thread "):
            cur = []
            threads.append(cur)
            continue
        m = _FRAME.match(line)
        if m and cur is not None:
            cur.append((m.group(1), int(m.group(2)), m.group(3)))
    return threads


def classify_thread(frames):
    """frames: most recent call first. Returns (role, 'file:func' of the
    innermost loky/multiprocessing frame)."""
    role = "user"
    inner = None
    for fn, ln, func in frames:
        short = fn.split("/loky/")[-1] if "/loky/" in fn else None
        if short is None and "/multiprocessing/" in fn:
            short = "mp/" + fn.split("/multiprocessing/")[-1]
        if short is None and fn.endswith("threading.py") and func in ("join", "_wait_for_tstate_lock", "wait"):
            short = "threading.py"
        if short is not None and inner is None:
            inner = "%s:%s" % (short, func)
    for fn, ln, func in frames:
        if "/loky/process_executor.py" in fn and func == "run":
            role = "mgr"
        if "/loky/backend/queues.py" in fn and func == "_feed":
            role = "feeder"
    if role == "mgr":
        # innermost frame *inside process_executor.py* tells which step of the loop
        for fn, ln, func in frames:
            if "/loky/process_executor.py" in fn:
                inner = "process_executor.py:%s" % func
                break
    return role, inner
